//! C03: Tiny v2 `read` / `write`: round trip, canonical (insertion-order independent) output, fixed point,
//! one entry per recognised line, well-formed results, duplicate sibling keys are errors, the header's own section
//! (comment of the mapping set, ignored property lines, refused shapes).
use indexmap::IndexMap;
use java_string::JavaStr;
use duke::tree::class::ObjClassName;
use duke::tree::field::FieldName;
use duke::tree::method::{MethodName, ParameterName};
use quill::tree::mappings::JavadocMapping;
use quill::tree::names::Names;
use fvh::mapcodec::{self, from_sexp, to_sexp, NsMarker, M};
use fvh::mapgen::{gen_mappings, GMappings, MapCfg};
use fvh::rng::Rng;
use fvh::run::{main_for, Ans, Out, Tier};
use fvh::sexp::Sexp;
use fvh::with_n;

// ------------------------------------------------------------------------------------------------ generator

fn esc(d: &str) -> String { d.replace('\\', "\\\\").replace('\n', "\\n").replace('\r', "\\r").replace('\t', "\\t") }

fn cells(names: &[Option<String>]) -> String {
	names.iter().map(|n| format!("\t{}", n.as_deref().unwrap_or(""))).collect()
}

/// the Tiny v2 text of a generated set, entries in generation order (not sorted)
fn emit(g: &GMappings) -> Vec<String> {
	let mut l = vec![format!("tiny\t2\t0{}", g.ns.iter().map(|n| format!("\t{n}")).collect::<String>())];
	if let Some(d) = &g.doc { l.push(format!("\tc\t{}", esc(d))); }
	for c in &g.classes {
		l.push(format!("c{}", cells(&c.names)));
		if let Some(d) = &c.doc { l.push(format!("\tc\t{}", esc(d))); }
		for f in &c.fields {
			l.push(format!("\tf\t{}{}", f.desc, cells(&f.names)));
			if let Some(d) = &f.doc { l.push(format!("\t\tc\t{}", esc(d))); }
		}
		for m in &c.methods {
			l.push(format!("\tm\t{}{}", m.desc, cells(&m.names)));
			if let Some(d) = &m.doc { l.push(format!("\t\tc\t{}", esc(d))); }
			for p in &m.params {
				l.push(format!("\t\tp\t{}{}", p.index, cells(&p.names)));
				if let Some(d) = &p.doc { l.push(format!("\t\t\tc\t{}", esc(d))); }
			}
		}
	}
	l
}

fn join(lines: &[String], r: &mut Rng, out: &mut Out) -> String {
	let crlf = r.chance(1, 12);
	if crlf { out.stats.hit("text:crlf"); }
	let mut t = String::new();
	for (i, l) in lines.iter().enumerate() {
		t.push_str(l);
		if i + 1 == lines.len() && r.chance(1, 10) { out.stats.hit("text:no-final-newline"); break; }
		if crlf { t.push('\r'); }
		t.push('\n');
	}
	t
}

/// same content, another insertion order at every level
fn reorder(g: &GMappings, r: &mut Rng) -> GMappings {
	let mut g = g.clone();
	r.shuffle(&mut g.classes);
	for c in &mut g.classes {
		r.shuffle(&mut c.fields);
		r.shuffle(&mut c.methods);
		for m in &mut c.methods { r.shuffle(&mut m.params); }
	}
	g
}

fn cfg_for(r: &mut Rng, n: usize) -> MapCfg {
	let mut cfg = MapCfg::basic(n);
	cfg.nest_depth = r.range(0, 3);
	cfg.max_classes = *r.pick(&[1, 2, 3, 4, 6, 9]);
	cfg.max_members = r.range(1, 4);
	cfg.max_params = r.range(0, 3);
	cfg.unicode = r.chance(1, 3);
	cfg.absent_pct = *r.pick(&[0, 10, 30, 60]);
	cfg.doc_pct = *r.pick(&[0, 25, 60, 100]);
	cfg.dollar_targets = r.chance(1, 6);
	cfg.extended_targets = r.chance(1, 6);
	cfg.dummy_names = r.chance(1, 8);
	cfg
}

/// Unicode White_Space characters that are legal in names (none of TAB / LF / CR): `str::trim` would remove them
const WS: &[char] = &[' ', '\u{a0}', '\u{2003}', '\u{3000}', '\u{85}', '\u{1680}', '\u{2028}', '\u{b}', '\u{c}'];

fn ws_string(r: &mut Rng) -> String { (0..r.range(1, 2)).map(|_| *r.pick(WS)).collect() }

/// leading / trailing / only white space; names with `<` (`<init>`) are left alone, they would become invalid
fn ws_name(name: &str, r: &mut Rng) -> String {
	if name.contains('<') { return name.to_owned(); }
	match r.below(4) {
		0 => format!("{}{name}", ws_string(r)),
		1 => format!("{name}{}", ws_string(r)),
		2 => format!("{}{name}{}", ws_string(r), ws_string(r)),
		_ => ws_string(r),
	}
}

fn ws_row(names: &mut [Option<String>], first_taken: &dyn Fn(&str) -> bool, r: &mut Rng) {
	for k in 0..names.len() {
		if !r.chance(1, 2) { continue; }
		let Some(old) = names[k].clone() else { continue };
		let new = ws_name(&old, r);
		if k == 0 && first_taken(&new) { continue; }
		names[k] = Some(new);
	}
}

/// names with white space at every level and in every column (all inside the domain: `cell` accepts them and the name
/// checks do too), plus pairs of keys that differ only by such a character
fn whitespace_names(g: &mut GMappings, r: &mut Rng, out: &mut Out) {
	let mut class_keys: Vec<String> = g.classes.iter().map(|c| c.key()).collect();
	for ci in 0..g.classes.len() {
		let keys = class_keys.clone();
		ws_row(&mut g.classes[ci].names, &|n| keys.iter().any(|k| k == n), r);
		class_keys[ci] = g.classes[ci].key();
		let c = &mut g.classes[ci];
		for fi in 0..c.fields.len() {
			let taken: Vec<(String, String)> = c.fields.iter().map(|f| (f.names[0].clone().unwrap_or_default(), f.desc.clone())).collect();
			let desc = c.fields[fi].desc.clone();
			ws_row(&mut c.fields[fi].names, &|n| taken.iter().any(|(k, d)| k == n && *d == desc), r);
		}
		for mi in 0..c.methods.len() {
			let taken: Vec<(String, String)> = c.methods.iter().map(|f| (f.names[0].clone().unwrap_or_default(), f.desc.clone())).collect();
			let desc = c.methods[mi].desc.clone();
			ws_row(&mut c.methods[mi].names, &|n| taken.iter().any(|(k, d)| k == n && *d == desc), r);
			for p in &mut c.methods[mi].params { ws_row(&mut p.names, &|_| false, r); }
		}
		// a sibling whose key differs only by one such character
		if r.chance(1, 2) {
			if let Some(f) = c.fields.first().cloned() {
				let mut f2 = f.clone();
				let n2 = format!("{}{}", f.names[0].clone().unwrap_or_default(), r.pick(WS));
				if !c.fields.iter().any(|x| x.desc == f.desc && x.names[0].as_deref() == Some(&n2)) { f2.names[0] = Some(n2); c.fields.push(f2); }
			}
			if let Some(m) = c.methods.first().cloned() {
				let old = m.names[0].clone().unwrap_or_default();
				let n2 = format!("{}{old}", r.pick(WS));
				if !old.contains('<') && !c.methods.iter().any(|x| x.desc == m.desc && x.names[0].as_deref() == Some(&n2)) {
					let mut m2 = m.clone(); m2.names[0] = Some(n2); c.methods.push(m2);
				}
			}
		}
	}
	if r.chance(1, 2) {
		if let Some(c) = g.classes.first().cloned() {
			let n2 = format!("{}{}", c.key(), r.pick(WS));
			if !g.classes.iter().any(|x| x.key() == n2) { let mut c2 = c.clone(); c2.names[0] = Some(n2); g.classes.push(c2); }
		}
	}
	out.stats.hit("has:whitespace-names");
}

/// pushes the set outside the proved domain in one of the known ways
/// comments that used to break the format (before fix a79b1fd); all inside the domain now
const HARD_DOCS: &[&str] = &["x\\ny", "\\n", "a\\\\nb", "tab\there", "ends with cr\r", "cr\r\nlf", "\\", "n\\", "\\\nn", "\\t\\r\\\\", "\t", "\r", "\n",
	"\\x unknown escape", "trailing \\\\", "\u{1f600}\\\u{1f600}", "a\tb\tc\r\n\r\n", ""];

fn hard_docs(g: &mut GMappings, r: &mut Rng, out: &mut Out) {
	for c in &mut g.classes {
		if r.chance(1, 2) { c.doc = Some((*r.pick(HARD_DOCS)).to_owned()); }
		for f in &mut c.fields { if r.chance(1, 2) { f.doc = Some((*r.pick(HARD_DOCS)).to_owned()); } }
		for m in &mut c.methods {
			if r.chance(1, 2) { m.doc = Some((*r.pick(HARD_DOCS)).to_owned()); }
			for p in &mut m.params { if r.chance(1, 2) { p.doc = Some((*r.pick(HARD_DOCS)).to_owned()); } }
		}
	}
	out.stats.hit("has:hard-docs");
}

/// comments on the mapping set itself: plain, several lines, characters that need escaping, the empty string
const TOP_DOCS: &[&str] = &["top", "a comment on the whole mapping set", "top\nlevel", "three\nlines\n", "tab\there and \\ backslash", "cr at the end\r",
	"cr\r\nlf \\n not a line feed \\", "", "", "\t", "\\", "\n", "\u{1f600} \\t\\r\\\\", "c\ttop", " \u{3000}"];

fn top_doc(g: &mut GMappings, r: &mut Rng, out: &mut Out) {
	let d = if r.chance(1, 4) { *r.pick(HARD_DOCS) } else { *r.pick(TOP_DOCS) };
	out.stats.hit(if d.is_empty() { "topdoc:empty" } else if d.contains('\n') { "topdoc:multiline" }
		else if d.contains(['\t', '\r', '\\']) { "topdoc:escapes" } else { "topdoc:plain" });
	g.doc = Some(d.to_owned());
}

/// pushes the set outside the proved domain in one of the known ways
fn spoil(g: &mut GMappings, r: &mut Rng, out: &mut Out) {
	match r.range(1, 3) {
		1 => {
			let bad = ["a\tb", "a\nb", "a\rb", "a\r", "a.b", "a;b", "[a", "a//b", "/a", "a/", "<x>", "a b", "B\nc\tC\tD"];
			if let Some(c) = g.classes.first_mut() {
				let k = r.below(c.names.len());
				c.names[k] = Some((*r.pick(&bad)).to_owned());
				if let Some(f) = c.fields.first_mut() { let k = r.below(f.names.len()); f.names[k] = Some((*r.pick(&bad)).to_owned()); }
				if let Some(m) = c.methods.first_mut() {
					let k = r.below(m.names.len()); m.names[k] = Some((*r.pick(&bad)).to_owned());
					if let Some(p) = m.params.first_mut() { let k = r.below(p.names.len()); p.names[k] = Some((*r.pick(&bad)).to_owned()); }
				}
			}
			out.stats.hit("spoil:name");
		}
		2 => {
			// one field per class only: two fields with one name would get one key, which an IndexMap cannot hold
			for c in &mut g.classes { if let Some(f) = c.fields.first_mut() { f.desc = (*r.pick(&["", "I\tJ", "L\n;", "x\r", "not a desc", "\u{1f600}"])).to_owned(); } }
			out.stats.hit("spoil:desc");
		}
		_ => {
			let k = r.below(g.ns.len());
			g.ns[k] = (*r.pick(&["a\tb", "a\nb", "x\r", "ns with space", "é"])).to_owned();
			out.stats.hit("spoil:namespace");
		}
	}
}

fn mutate_text(lines: &mut Vec<String>, r: &mut Rng, out: &mut Out) {
	if lines.is_empty() { return; }
	let i = r.below(lines.len());
	let body = if lines.len() > 1 { r.range(1, lines.len() - 1) } else { 0 };
	let kind = r.below(22);
	// the end of the header section: the first line at indentation 0 after the header line
	let hdr_end = (1..lines.len()).find(|&k| indent_of(&lines[k]) == 0).unwrap_or(lines.len());
	let first_class = (1..lines.len()).find(|&k| lines[k].starts_with("c\t"));
	let name = match kind {
		0 => { lines[body].insert(0, '\t'); "indent-more" }
		1 => { if lines[body].starts_with('\t') { lines[body].remove(0); } "indent-less" }
		2 => { if let Some(p) = lines[body].rfind('\t') { lines[body].truncate(p); } "missing-field" }
		3 => { lines[body].push_str("\tx"); "extra-field" }
		4 => { let l = lines[body].clone(); lines.insert(body, l); "duplicate-line" }
		5 => {
			// duplicate key far apart: repeat an earlier line at the end of its level
			let l = lines[body].clone(); lines.push(l); "duplicate-at-end"
		}
		6 => {
			lines[0] = (*r.pick(&["tinx\t2\t0\ta\tb", "tiny\t3\t0\ta\tb", "tiny\t2\t1\ta\tb", "tiny\t2", "tiny", "", "tiny\t2\t0", "tiny\t2\t0\ta",
				"tiny\t2\t0\ta\t", "tiny\t2\t0\ta\tb\tc\td\te", "\ttiny\t2\t0\ta\tb", "\t\ttiny\t2\t0\ta\tb\tc", "v1\ta\tb", " tiny\t2\t0\ta\tb"])).to_owned();
			"header"
		}
		7 => {
			let idx = *r.pick(&["-1", "+1", "1a", "", "18446744073709551616", "18446744073709551615", "007", "+", "++1", " 1", "1 ", "٣", "1e3",
				"0x1", "99999999999999999999999", "+0", "-0", "00000000000000000000000001"]);
			let pos = lines.iter().position(|l| l.starts_with("\t\tp\t"));
			match pos {
				Some(p) => {
					let rest: Vec<&str> = lines[p].split('\t').collect();
					let mut v: Vec<String> = rest.iter().map(|s| (*s).to_owned()).collect();
					v[3] = idx.to_owned();
					lines[p] = v.join("\t");
				}
				None => { let n = lines[0].split('\t').count().saturating_sub(3).max(1); lines.push(format!("c\tZz{}", "\tq".repeat(n - 1))); lines.push(format!("\tm\t()V\tm{}", "\tq".repeat(n - 1))); lines.push(format!("\t\tp\t{idx}{}", "\t".repeat(n))); }
			}
			"param-index"
		}
		8 => { lines.insert(body, (*r.pick(&["x\tfoo", "\tx\tfoo", "\t\tx", "", "\t", "#comment", "C\ta\tb", "\t\t\tx\ty"])).to_owned()); "unknown-line" }
		9 => {
			// an unknown line followed by a deeper one
			let ind = r.below(3);
			lines.insert(body, format!("{}zz\tfoo", "\t".repeat(ind)));
			lines.insert(body + 1, format!("{}c\tchild", "\t".repeat(ind + 1)));
			"unknown-with-child"
		}
		10 => {
			let pos = lines.iter().position(|l| l.trim_start_matches('\t').starts_with("c\t") && l.starts_with('\t'));
			if let Some(p) = pos { let l = lines[p].clone(); lines.insert(p, l); } else { lines.push("c\tDd\tx\tx\tx".to_owned()); lines.push("\tc\tone".to_owned()); lines.push("\tc\ttwo".to_owned()); }
			"comment-twice"
		}
		11 => {
			let cellsv: Vec<String> = lines[body].split('\t').map(|s| s.to_owned()).collect();
			let mut v = cellsv.clone();
			let k = r.below(v.len());
			v[k] = (*r.pick(&["", "a.b", "a;b", "[a", "a//b", "/a", "a/", "<x>", "<init>", "<clinit>", "a/b", "x\\ny", "é", "\u{1f600}", " ", "\u{3000}", "\u{a0}x", "x\u{2003}", "\u{85}", "\u{b}\u{c}"])).to_owned();
			lines[body] = v.join("\t");
			"cell-replaced"
		}
		12 => { lines.swap(i, body); "swap-lines" }
		13 => { lines.remove(body.min(lines.len() - 1)); "remove-line" }
		14 => { lines[body].push('\r'); "trailing-cr" }
		15 => { lines.insert(body, String::new()); "empty-line" }
		16 => {
			// property lines of other kinds in the header section
			for _ in 0..r.range(1, 3) {
				let at = r.range(1, hdr_end);
				lines.insert(at, (*r.pick(&["\tescaped-names", "\tmissing-lvt-indices", "\tx\ty\tz", "\t", "\tf\tI\ta\tb", "\tm\t()V\ta\tb", "\tp\t0\ta\tb",
					"\tC\tupper", "\t c\tspace", "\tcc\tx", "\t#\tc", "\tprop\tc\tvalue"])).to_owned());
			}
			"header-property"
		}
		17 => {
			let at = r.range(1, hdr_end);
			lines.insert(at, (*r.pick(&["\tc\tsecond", "\tc\t", "\tc\tsecond\\nline"])).to_owned());
			let have = lines[1..hdr_end + 1].iter().filter(|l| l.starts_with("\tc")).count();
			if have < 2 && r.chance(3, 4) {
				let at = r.range(1, hdr_end + 1);
				lines.insert(at, "\tc\tanother".to_owned());
			}
			"header-two-comments"
		}
		18 => {
			let at = r.range(1, hdr_end);
			lines.insert(at, (*r.pick(&["\t\tc\tdeep", "\t\t\tc\tdeeper", "\t\tx", "\t\t"])).to_owned());
			"header-deeper-line"
		}
		19 => {
			// a header comment / property after the first class (there it belongs to the class), or at the end of the text
			let at = match first_class { Some(k) if r.chance(3, 4) => k + 1, _ => lines.len() };
			lines.insert(at, (*r.pick(&["\tc\tlate header comment", "\tescaped-names", "\tc\t"])).to_owned());
			"header-line-after-class"
		}
		20 => {
			// an ignored line at indentation 0, then an indented one
			let at = r.range(1, lines.len());
			lines.insert(at, (*r.pick(&["x\tfoo", "", "#", "C\tA\tB"])).to_owned());
			lines.insert(at + 1, (*r.pick(&["\tc\torphan", "\tescaped-names", "\t\tc\tx"])).to_owned());
			"orphan-indent"
		}
		_ => {
			// malformed header comments: no cell, two cells
			let at = r.range(1, hdr_end);
			lines.insert(at, (*r.pick(&["\tc", "\tc\ta\tb", "\tc\t\t"])).to_owned());
			"header-comment-cells"
		}
	};
	out.stats.hit(&format!("malformed:{name}"));
}

fn gen(r: &mut Rng, tier: Tier, out: &mut Out) {
	let rounds = if tier == Tier::Thorough { 12000 } else { 450 };
	// stream 1: structured sets, mostly inside the proved domain
	for i in 0..rounds {
		let n = r.range(2, 4);
		let cfg = cfg_for(r, n);
		let mut g = gen_mappings(r, &cfg);
		if r.chance(1, 3) { hard_docs(&mut g, r, out); }
		if r.chance(1, 3) { top_doc(&mut g, r, out); } else { out.stats.hit("topdoc:none"); }
		if r.chance(1, 4) { whitespace_names(&mut g, r, out); }
		let spoiled = r.chance(1, 7);
		if spoiled { spoil(&mut g, r, out); }
		out.stats.hit(&format!("n:{n}"));
		out.stats.hit(&format!("classes:{}", g.classes.len().min(6)));
		out.stats.hit(if spoiled { "domain:spoiled" } else { "domain:plain" });
		let nmembers: usize = g.classes.iter().map(|c| c.fields.len() + c.methods.len()).sum();
		out.stats.hit(&format!("members:{}", (nmembers / 4 * 4).min(16)));
		let nparams: usize = g.classes.iter().flat_map(|c| c.methods.iter()).map(|m| m.params.len()).sum();
		out.stats.hit(&format!("params:{}", nparams.min(6)));
		if g.classes.iter().any(|c| c.key().contains('$')) { out.stats.hit("has:nested-class"); }
		if g.classes.iter().any(|c| c.names.iter().any(|x| x.is_none())) { out.stats.hit("has:absent-class-name"); }
		if g.classes.iter().flat_map(|c| c.methods.iter()).flat_map(|m| m.params.iter()).any(|p| p.names[0].is_none()) { out.stats.hit("has:param-without-src"); }
		if g.classes.iter().any(|c| c.doc.as_deref().is_some_and(|d| d.contains('\n'))) { out.stats.hit("has:multiline-class-doc"); }
		if g.classes.iter().flat_map(|c| c.methods.iter()).flat_map(|m| m.params.iter()).any(|p| p.doc.is_some()) { out.stats.hit("has:param-doc"); }
		if g.classes.iter().any(|c| c.names.iter().flatten().any(|x| x.chars().any(|ch| ch as u32 > 0xffff))) { out.stats.hit("has:non-bmp"); }
		let m = g.to_sexp();
		out.op("oracle-rt", &[m.clone()]);
		if spoiled || r.chance(1, 4) { out.op("oracle-write-rejects", &[m.clone()]); }
		match i % 3 {
			0 => out.op("tiny-write", &[m.clone()]),
			1 => out.op("tiny-rt", &[m.clone()]),
			_ => out.op("oracle-fixed-point", &[m.clone()]),
		}
		let g2 = reorder(&g, r);
		out.op("oracle-perm", &[m.clone(), g2.to_sexp()]);
		if r.chance(1, 10) {
			// not content-equal: one entry changed
			let mut g3 = reorder(&g, r);
			if let Some(c) = g3.classes.first_mut() { c.doc = Some("changed".to_owned()); }
			out.op("oracle-perm", &[m.clone(), g3.to_sexp()]);
		}
		// the text of the set in generation order, read back
		let lines = emit(&g);
		let text = join(&lines, r, out);
		let nn = if r.chance(1, 15) { r.range(2, 4) } else { n };
		out.op("tiny-read", &[Sexp::nat(nn), Sexp::str(&text)]);
		match i % 2 {
			0 => out.op("oracle-read-counts", &[Sexp::nat(nn), Sexp::str(&text)]),
			_ => out.op("oracle-read-wf", &[Sexp::nat(nn), Sexp::str(&text)]),
		}
		if g.doc.is_some() || r.chance(1, 4) { out.op("oracle-toplevel-doc", &[Sexp::nat(nn), Sexp::str(&text)]); }
		// unknown property lines in the header section, one of them deleted again
		if r.chance(1, 3) { ignored_case(&lines, n, r, out); }
		// a name that is not UTF-8 (lone surrogate): `write` refuses it (it used to panic)
		if r.chance(1, 12) {
			if let Some(ms) = with_surrogate(&m, r) {
				out.stats.hit("has:surrogate");
				out.op(*r.pick(&["tiny-write", "tiny-rt", "oracle-rt", "oracle-write-rejects"]), &[ms]);
			}
		}
		// two sibling lines with one key
		if r.chance(1, 2) { dup_case(&lines, n, r, out); }
	}
	// stream 2: malformed / edge texts
	for _ in 0..rounds * 2 {
		let n = r.range(2, 4);
		let mut cfg = cfg_for(r, n);
		cfg.max_classes = r.range(1, 3);
		cfg.max_members = r.range(1, 3);
		cfg.max_params = 2;
		cfg.doc_pct = 50;
		let g = gen_mappings(r, &cfg);
		let mut lines = emit(&g);
		for _ in 0..*r.pick(&[1, 1, 1, 2, 3]) { mutate_text(&mut lines, r, out); }
		let text = join(&lines, r, out);
		out.op("tiny-read", &[Sexp::nat(n), Sexp::str(&text)]);
		if r.chance(1, 2) { out.op("oracle-read-counts", &[Sexp::nat(n), Sexp::str(&text)]); }
		if r.chance(1, 4) { out.op("oracle-read-wf", &[Sexp::nat(n), Sexp::str(&text)]); }
		if r.chance(1, 3) { out.op("oracle-toplevel-doc", &[Sexp::nat(n), Sexp::str(&text)]); }
		if r.chance(1, 2) { out.op("oracle-header-bad", &[Sexp::nat(n), Sexp::str(&text)]); }
		if r.chance(1, 3) {
			// the first ignored line at indentation 0 that is followed by an indented one (or any position)
			let k = (1..lines.len().saturating_sub(1)).find(|&k| indent_of(&lines[k]) == 0 && !lines[k].starts_with("c\t") && lines[k] != "c" && indent_of(&lines[k + 1]) > 0);
			let k = match k { Some(k) if r.chance(7, 8) => k - 1, _ => r.below(lines.len() + 1) };
			out.op("oracle-orphan-indent", &[Sexp::nat(n), Sexp::str(&text), Sexp::nat(k)]);
		}
		if r.chance(1, 8) { ignored_case(&lines, n, r, out); }
		if r.chance(1, 6) { dup_case(&lines, n, r, out); }
	}
	// stream 3: fixed edge texts
	for t in ["", "\n", "tiny\t2\t0\ta\tb", "tiny\t2\t0\ta\tb\n", "tiny\t2\t0\ta\tb\r\n", "tiny\t2\t0\ta\tb\n\n", "\ttiny\t2\t0\ta\tb\nc\tA\tB\n",
		"tiny\t2\t0\ta\tb\n\tc\ttop level comment\n", "tiny\t2\t0\ta\tb\nc\tA\tB\n\tc\tx\\ny\n", "tiny\t2\t0\ta\tb\nc\tA\tB\n\tc\tx\\\\ny\n",
		"tiny\t2\t0\ta\tb\nc\tA\t\nc\tB\t\n", "tiny\t2\t0\ta\tb\nc\t\tB\n", "tiny\t2\t0\ta\tb\nc\tA\tB\nc\tA\tC\n",
		"tiny\t2\t0\ta\tb\nc\tA\tB\n\tf\tI\tx\ty\n\tf\tI\tx\tz\n", "tiny\t2\t0\ta\tb\nc\tA\tB\n\tf\tI\tx\ty\n\tf\tJ\tx\tz\n",
		"tiny\t2\t0\ta\tb\nc\tA\tB\n\tm\t()V\tx\ty\n\t\tp\t0\t\t\n\t\tp\t0\ta\tb\n", "tiny\t2\t0\ta\tb\nc\tA\tB\n\tm\t()V\tx\ty\n\t\tp\t0\t\t\n\t\t\tc\tdoc\n\t\t\tx\tignored\n\t\t\t\tc\ttoo deep\n",
		"tiny\t2\t0\ta\tb\nc\tA\tB\n\tf\tI\tx\ty\n\t\tp\t0\ta\tb\n", "tiny\t2\t0\ta\tb\nc\tA\tB\n\tf\tI\tx\ty\n\t\tp\t0\ta\tb\n\t\t\tc\tdeep\n",
		"tiny\t2\t0\ta\tb\nc\tA\tB\n\tm\t()V\t<init>\t<init>\n\tm\t()V\t<clinit>\t<x>\n", "tiny\t2\t0\ta\tb\nx\n\tc\tchild of ignored\n",
		"tiny\t2\t0\ta\tb\nc\tA\tB\n\tc\t\n", "tiny\t2\t0\ta\tb\nc\tA\tB\n\tc\n", "tiny\t2\t0\ta\tb\nc\tA\tB\n\tc\ta\tb\n",
		"tiny\t2\t0\ta\tb\nc\tA\tB\r\n\tc\tdoc\r\r\n", "tiny\t2\t0\ta\tb\nc\tA\tB\n\tf\n", "tiny\t2\t0\ta\tb\nc\tA\tB\n\tf\t\tx\ty\n", "tiny\t2\t0\ta\tb\nc\tA\tB\n\tm\t()V\n",
		"tiny\t2\t0\ta\tb\nc\tp/A$B$C\t$\n\tf\tLp/A$B;\t$\t$$\n",
		"tiny\t2\t0\ta\tb\nc\tA\tB\n\tc\t\\\\n \\x \\t\\r\\n \\\\\\ end\\\n", "tiny\t2\t0\ta\tb\nc\tA\tB\n\tc\t\\\n", "tiny\t2\t0\ta\tb\nc\tA\tB\n\tc\t\\\\\\\n",
		"tiny\t2\t0\ta\tb\nc\tA\\tB\tB\\n\n",
		"tiny\t2\t0\ta\tb\nc\tA\t \nc\tA \t\u{3000}\nc\t \t\n\tf\tI\t\u{a0}\t \n\tf\tI\t\u{a0}\u{a0}\t\n\tm\t()V\t run\trun \n\t\tp\t0\t \t\u{2003}\n\t\tp\t 1\t\t\n",
		"tiny\t2\t0\t a\tb \nc\tA\tB\n", "tiny\t2\t0\ta\t \nc\tA\tB\n",
		// the header's own section
		"tiny\t2\t0\ta\tb\n\tc\ttop\nc\tA\tB\n", "tiny\t2\t0\ta\tb\n\tc\t\n", "tiny\t2\t0\ta\tb\n\tc\ttop\\nlevel \\t \\\\ \\r\r\n", "tiny\t2\t0\ta\tb\n\tc",
		"tiny\t2\t0\ta\tb\n\tescaped-names\n\tc\ttop\n\tx\ty\tz\nc\tA\tB\n", "tiny\t2\t0\ta\tb\n\tescaped-names\nc\tA\tB\n\tc\tclass doc\n",
		"tiny\t2\t0\ta\tb\n\tc\tone\n\tc\ttwo\n", "tiny\t2\t0\ta\tb\n\tc\tone\n\tx\n\tc\ttwo\nc\tA\tB\n", "tiny\t2\t0\ta\tb\n\t\tc\tdeep\n", "tiny\t2\t0\ta\tb\n\tc\ttop\n\t\tc\tdeep\n",
		"tiny\t2\t0\ta\tb\n\tx\n\t\ty\n", "tiny\t2\t0\ta\tb\nc\tA\tB\n\tc\tx\n\tescaped-names\n", "tiny\t2\t0\ta\tb\n\tc\ttop\nc\tA\tB\n\tc\tx\n\tc\ty\n",
		"tiny\t2\t0\ta\tb\nx\n\tc\tlate\n", "tiny\t2\t0\ta\tb\n\n\tc\tafter an empty line\n", "tiny\t2\t0\ta\tb\nc\tA\tB\nzz\n\tescaped-names\n", "tiny\t2\t0\ta\tb\n\tc\ta\tb\n",
		"tiny\t2\t0\ta\tb\n\tf\tI\tx\ty\n\tf\tI\tx\ty\n", "tiny\t2\t0\ta\tb\n\tm\t()V\tx\ty\n\tc\ttop\n", "tiny\t2\t0\ta\tb\r\n\tc\ttop\r\n\tescaped-names\r\n", "\ttiny\t2\t0\ta\tb\n\tc\ttop\n"] {
		for n in 2..=3 {
			out.op("tiny-read", &[Sexp::nat(n), Sexp::str(t)]);
			out.op("oracle-read-counts", &[Sexp::nat(n), Sexp::str(t)]);
			out.op("oracle-read-wf", &[Sexp::nat(n), Sexp::str(t)]);
			out.op("oracle-toplevel-doc", &[Sexp::nat(n), Sexp::str(t)]);
			out.op("oracle-header-bad", &[Sexp::nat(n), Sexp::str(t)]);
			for k in 0..3 { out.op("oracle-orphan-indent", &[Sexp::nat(n), Sexp::str(t), Sexp::nat(k)]); }
		}
		out.stats.hit("edge-text");
	}
	// stream 3b: fixed duplicate-key texts (positions m i j in the body) and near misses
	for (t, m, i, j) in [
		("tiny\t2\t0\ta\tb\nc\tA\tB\nc\tA\tC\n", 0, 0, 1),
		("tiny\t2\t0\ta\tb\nc\tA\tB\nc\tB\tC\n", 0, 0, 1),
		("tiny\t2\t0\ta\tb\nc\tA\tB\n\tf\tI\tx\ty\nc\tZ\t\nc\tA\t\n", 0, 0, 3),
		("tiny\t2\t0\ta\tb\nc\tA\tB\n\tf\tI\tx\ty\n\t\tc\tdoc\n\tm\t()V\tx\ty\n\tf\tI\tx\tz\n", 0, 1, 4),
		("tiny\t2\t0\ta\tb\nc\tA\tB\n\tf\tI\tx\ty\nc\tC\tD\n\tf\tI\tx\ty\n", 0, 1, 3),
		("tiny\t2\t0\ta\tb\nc\tA\tB\n\tf\tI\tx\ty\n\tf\tJ\tx\ty\n", 0, 1, 2),
		("tiny\t2\t0\ta\tb\nc\tA\tB\n\tm\t()V\tx\ty\n\tm\t()V\tx\t\n", 0, 1, 2),
		("tiny\t2\t0\ta\tb\nc\tA\tB\n\tm\t()V\tx\ty\n\tf\t()V\tx\t\n", 0, 1, 2),
		("tiny\t2\t0\ta\tb\nc\tA\tB\n\tm\t()V\tx\ty\n\t\tp\t1\t\t\n\t\t\tc\tdoc\n\t\tp\t+1\ta\tb\n", 1, 2, 4),
		("tiny\t2\t0\ta\tb\nc\tA\tB\n\tm\t()V\tx\ty\n\t\tp\t1\t\t\n\t\tp\t01\ta\tb\n", 1, 2, 3),
		("tiny\t2\t0\ta\tb\nc\tA\tB\n\tm\t()V\tx\ty\n\t\tp\t1\t\t\n\tm\t(I)V\tx\ty\n\t\tp\t1\ta\tb\n", 1, 2, 4),
		("tiny\t2\t0\ta\tb\nc\tA\tB\n\tf\tI\tx\ty\n\t\tp\t1\t\t\n\t\tp\t1\ta\tb\n", 1, 2, 3),
		("tiny\t2\t0\ta\tb\nc\tA\tB\n\tm\t()V\tx\ty\n\t\tp\tx\t\t\n\t\tp\ty\ta\tb\n", 1, 2, 3),
		("tiny\t2\t0\ta\tb\nc\nc\n", 0, 0, 1),
		("tiny\t2\t0\ta\tb\nc\tA\tB\n", 0, 0, 0),
		("tiny\t2\t0\ta\tb\nc\tA\tB\n", 0, 0, 7),
		// with a header section: positions count from the first line at indentation 0
		("tiny\t2\t0\ta\tb\n\tc\ttop\n\tescaped-names\nc\tA\tB\nc\tA\tC\n", 0, 0, 1),
		("tiny\t2\t0\ta\tb\n\tc\ttop\nc\tA\tB\n\tf\tI\tx\ty\n\tf\tI\tx\tz\n", 0, 1, 2),
		("tiny\t2\t0\ta\tb\n\tf\tI\tx\ty\n\tf\tI\tx\ty\n", 0, 0, 1),
		("tiny\t2\t0\ta\tb\n\tf\tI\tx\ty\n\tf\tI\tx\ty\nc\tA\tB\n", 0, 0, 1),
	] {
		for n in 2..=3 { out.op("oracle-dup", &[Sexp::nat(n), Sexp::str(t), Sexp::nat(m), Sexp::nat(i), Sexp::nat(j)]); }
		out.stats.hit("edge-dup");
	}
	// stream 4: every insertion order of a small set (3 classes x 3 fields x 3 methods x 3 parameters: 6 orders per level)
	let base = small_set();
	let bs = base.to_sexp();
	out.op("oracle-rt", &[bs.clone()]);
	let perms: [[usize; 3]; 6] = [[0, 1, 2], [0, 2, 1], [1, 0, 2], [1, 2, 0], [2, 0, 1], [2, 1, 0]];
	let levels = if tier == Tier::Thorough { 6 } else { 3 };
	for pc in &perms { for pf in &perms[..levels] { for pm in &perms[..levels] { for pp in &perms[..levels] {
		let mut g = base.clone();
		g.classes = pc.iter().map(|&i| base.classes[i].clone()).collect();
		for c in &mut g.classes {
			if c.fields.len() == 3 { let f = c.fields.clone(); c.fields = pf.iter().map(|&i| f[i].clone()).collect(); }
			if c.methods.len() == 3 {
				let m = c.methods.clone(); c.methods = pm.iter().map(|&i| m[i].clone()).collect();
				for me in &mut c.methods { if me.params.len() == 3 { let p = me.params.clone(); me.params = pp.iter().map(|&i| p[i].clone()).collect(); } }
			}
		}
		out.op("oracle-perm", &[bs.clone(), g.to_sexp()]);
		out.stats.hit("exhaustive-order");
	} } } }
}

/// the set with U+D800 appended to one name of its first class (not a key unless `key` is drawn)
fn with_surrogate(m: &Sexp, r: &mut Rng) -> Option<Sexp> {
	let mut top = m.as_list().ok()?.to_vec();
	let mut classes = top[2].as_list().ok()?.to_vec();
	let mut c = classes.first()?.as_list().ok()?.to_vec();
	let mut names = c[1].as_list().ok()?.to_vec();
	let k = r.below(names.len());
	let cell = names[k].as_list().ok()?.to_vec();
	let atom = cell.first()?.as_atom().ok()?.to_owned();
	let bad = Sexp::Atom(format!("{atom}.d800"));
	names[k] = Sexp::list(vec![bad.clone()]);
	if k == 0 { c[0] = bad; }
	c[1] = Sexp::list(names);
	classes[0] = Sexp::list(c);
	top[2] = Sexp::list(classes);
	Some(Sexp::list(top))
}

fn indent_of(l: &str) -> usize { l.chars().take_while(|c| *c == '\t').count() }

/// copies one entry line (with other target names) to a later place and asks for the duplicate-key theorem there;
/// some placements are deliberately outside the domain (another class / method in between, no copy at all)
fn dup_case(lines: &[String], n: usize, r: &mut Rng, out: &mut Out) {
	let start = (1..lines.len()).find(|&k| indent_of(&lines[k]) == 0).unwrap_or(lines.len());
	if lines.len() < start + 1 { return; }
	let body: Vec<String> = lines[start..].to_vec();
	let entry: Vec<usize> = (0..body.len()).filter(|&k| {
		let t = body[k].trim_start_matches('\t');
		(indent_of(&body[k]) == 0 && t.starts_with("c\t")) || (indent_of(&body[k]) == 1 && (t.starts_with("f\t") || t.starts_with("m\t")))
			|| (indent_of(&body[k]) == 2 && t.starts_with("p\t"))
	}).collect();
	if entry.is_empty() { return; }
	let i = *r.pick(&entry);
	let ind = indent_of(&body[i]);
	// the copy: same key cells, the remaining name cells emptied or kept
	let mut cells: Vec<String> = body[i].split('\t').map(|x| x.to_owned()).collect();
	let keep = ind + if ind == 0 || ind == 2 { 2 } else { 3 };
	if r.chance(1, 2) { for c in cells.iter_mut().skip(keep) { c.clear(); } }
	if ind == 2 && r.chance(1, 3) { let v = cells[ind + 1].clone(); cells[ind + 1] = format!("+{v}"); }
	let copy = cells.join("\t");
	// where: end of the subtree of i, end of the enclosing level, or anywhere later
	let end_sub = (i + 1..body.len()).find(|&k| indent_of(&body[k]) <= ind).unwrap_or(body.len());
	let end_lvl = if ind == 0 { body.len() } else { (i + 1..body.len()).find(|&k| indent_of(&body[k]) < ind).unwrap_or(body.len()) };
	let (pos, how) = match r.below(8) {
		0..=2 => (end_sub, "after-subtree"),
		3..=5 => (end_lvl, "end-of-level"),
		6 => (r.range(i + 1, body.len()), "anywhere-later"),
		_ => (body.len(), "end-of-text"),
	};
	let mut nb = body.clone();
	let no_copy = r.chance(1, 12);
	if !no_copy { nb.insert(pos, copy); }
	let m = (0..i).rev().find(|&k| indent_of(&nb[k]) == 1 && nb[k].trim_start_matches('\t').starts_with("m\t")).unwrap_or(0);
	let mut text = String::new();
	for l in lines[..start].iter().chain(nb.iter()) { text.push_str(l); text.push('\n'); }
	let j = if r.chance(1, 15) { r.below(nb.len() + 2) } else { pos };
	out.stats.hit(&format!("dup:{}:{}", ["class", "member", "param"][ind.min(2)], if no_copy { "no-copy" } else { how }));
	out.op("oracle-dup", &[Sexp::nat(n), Sexp::str(&text), Sexp::nat(m), Sexp::nat(i), Sexp::nat(j)]);
}

/// inserts unknown property lines into the header section and asks whether deleting one of them again changes the
/// outcome (theorem `header_unknown_property_ignored_at`); some requests are deliberately outside the domain: the deleted
/// line is the comment, stands in the body, or the second text is not the first one without that line
fn ignored_case(lines: &[String], n: usize, r: &mut Rng, out: &mut Out) {
	if lines.is_empty() { return; }
	let mut l: Vec<String> = lines.to_vec();
	let hdr_end = (1..l.len()).find(|&k| indent_of(&l[k]) == 0).unwrap_or(l.len());
	let props = ["\tescaped-names", "\tmissing-lvt-indices", "\tx\ty\tz", "\t", "\tf\tI\ta\tb", "\tm\t()V\ta\tb", "\tC\tnot a comment", "\tcc", "\tprop\tc\tv"];
	let mut end = hdr_end;
	let mut at = 1;
	for _ in 0..r.range(1, 3) { at = r.range(1, end); l.insert(at, (*r.pick(&props)).to_owned()); end += 1; }
	let how = r.below(12);
	let k = match how {
		0 => r.range(1, l.len()),                 // any line
		1 => end,                                 // the first body line (or past the end)
		2 => (1..end).find(|&k| l[k].starts_with("\tc\t")).unwrap_or(at),   // the comment
		_ => at,
	};
	let mut l2 = l.clone();
	if k < l2.len() { l2.remove(k); }
	if how == 3 && l2.len() > 1 { let x = r.range(1, l2.len() - 1); l2.remove(x); }   // something else is missing too
	if how == 4 { l[at] = "\t\tdeeper".to_owned(); }
	let text = |v: &[String]| v.iter().map(|x| format!("{x}\n")).collect::<String>();
	out.stats.hit(["ignored:any-line", "ignored:first-body-line", "ignored:comment", "ignored:other-text", "ignored:deeper", "ignored:property"][how.min(5)]);
	out.op("oracle-header-ignored", &[Sexp::nat(n), Sexp::str(&text(&l)), Sexp::str(&text(&l2)), Sexp::nat(k - 1)]);
}

fn small_set() -> GMappings {
	use fvh::mapgen::{GClass, GMember, GParam};
	let o = |s: &str| Some(s.to_owned());
	let p = |i: usize, a: Option<String>, b: Option<String>, d: Option<String>| GParam { index: i, names: vec![a, b], doc: d };
	let params = vec![p(2, None, o("z"), None), p(0, o("a"), None, o("doc\nline")), p(1, None, None, None)];
	let me = |desc: &str, a: &str, b: Option<String>, ps: Vec<GParam>| GMember { desc: desc.to_owned(), names: vec![o(a), b], doc: None, params: ps };
	let methods = vec![me("()V", "m", o("x"), params.clone()), me("(I)V", "m", None, vec![]), me("()V", "a", o("y"), params)];
	let fields = vec![me("I", "f", o("g"), vec![]), me("J", "f", None, vec![]), me("I", "a", o("\u{1f600}"), vec![])];
	let cl = |a: &str, b: Option<String>, f: Vec<GMember>, m: Vec<GMember>| GClass { names: vec![o(a), b], doc: o("d"), fields: f, methods: m };
	GMappings { ns: vec!["official".into(), "named".into()], doc: None, classes: vec![
		cl("p/A$B", o("q/X$Y"), fields.clone(), methods.clone()), cl("p/A", None, vec![], vec![]), cl("B", o("é"), fields, methods)] }
}

// ------------------------------------------------------------------------------------------------ implementation side

fn cell_ok(s: &JavaStr) -> bool {
	s.chars().all(|c| c.as_char().is_some_and(|ch| ch != '\t' && ch != '\n' && ch != '\r'))
}
fn str_cell_ok(s: &str) -> bool { s.chars().all(|ch| ch != '\t' && ch != '\n' && ch != '\r') }

fn names_ok<const N: usize, T: AsRef<JavaStr>>(names: &Names<N, T>, valid: fn(&JavaStr) -> bool) -> bool {
	let arr: &[Option<T>; N] = names.into();
	arr.iter().all(|o| match o { None => true, Some(t) => { let s = t.as_ref(); !s.is_empty() && cell_ok(s) && valid(s) } })
}

fn first<const N: usize, T>(names: &Names<N, T>) -> Option<&T> { let arr: &[Option<T>; N] = names.into(); arr.first().and_then(|x| x.as_ref()) }

/// map invariants: every key is the key derived from its entry
fn wf<const N: usize>(m: &M<N>) -> bool {
	m.classes.iter().all(|(k, c)| first(&c.info.names) == Some(k)
		&& c.fields.iter().all(|(k, f)| first(&f.info.names) == Some(&k.name) && k.desc == f.info.desc)
		&& c.methods.iter().all(|(k, me)| first(&me.info.names) == Some(&k.name) && k.desc == me.info.desc
			&& me.parameters.iter().all(|(k, p)| k.index == p.info.index)))
}

/// the proved domain of the round trip and of the fixed point (mirror of `Tiny.writable`); comments are arbitrary
fn writable<const N: usize>(m: &M<N>) -> bool {
	let ns: &[String; N] = (&m.info.namespaces).into();
	N >= 2 && ns.iter().all(|s| !s.is_empty() && str_cell_ok(s)) && wf(m)
		&& m.classes.values().all(|c| names_ok(&c.info.names, ObjClassName::is_valid)
			&& c.fields.values().all(|f| cell_ok(f.info.desc.as_inner()) && names_ok(&f.info.names, FieldName::is_valid))
			&& c.methods.values().all(|me| cell_ok(me.info.desc.as_inner()) && names_ok(&me.info.names, MethodName::is_valid)
				&& me.parameters.values().all(|p| names_ok(&p.info.names, ParameterName::is_valid))))
}

fn names_writable<const N: usize, T: AsRef<JavaStr>>(names: &Names<N, T>) -> bool {
	let arr: &[Option<T>; N] = names.into();
	arr.iter().all(|o| match o { None => true, Some(t) => cell_ok(t.as_ref()) })
}

/// what `write` must accept (mirror of `Tiny.writeOk`): every namespace, present name and descriptor is UTF-8 without TAB, LF, CR
fn write_ok<const N: usize>(m: &M<N>) -> bool {
	let ns: &[String; N] = (&m.info.namespaces).into();
	ns.iter().all(|s| str_cell_ok(s)) && m.classes.values().all(|c| names_writable(&c.info.names)
		&& c.fields.values().all(|f| cell_ok(f.info.desc.as_inner()) && names_writable(&f.info.names))
		&& c.methods.values().all(|me| cell_ok(me.info.desc.as_inner()) && names_writable(&me.info.names)
			&& me.parameters.values().all(|p| names_writable(&p.info.names))))
}

fn sorted_by<K: std::hash::Hash + Eq, V>(map: IndexMap<K, V>, cmp: impl Fn(&(K, V), &(K, V)) -> std::cmp::Ordering) -> IndexMap<K, V> {
	let mut v: Vec<(K, V)> = map.into_iter().collect();
	v.sort_by(cmp);
	v.into_iter().collect()
}

/// harness-own sort keys of the mapping infos: a name / descriptor is its sequence of code points, an absent name sorts before
/// every present one, tuples and sequences compare lexicographically. The EXPECTED order is computed from these (the order the
/// property states: classes by their names, fields and methods by descriptor then names, parameters by index then names) and never
/// through the `Ord` of quill's types, so that a changed `Ord` / sort key in quill cannot move the expectation along with the result
fn cps(s: &JavaStr) -> Vec<u32> { s.chars().map(|c| c.as_u32()).collect() }
fn names_key<const N: usize, T: AsRef<JavaStr>>(names: &Names<N, T>) -> Vec<Option<Vec<u32>>> {
	let arr: &[Option<T>; N] = names.into();
	arr.iter().map(|o| o.as_ref().map(|t| cps(t.as_ref()))).collect()
}

/// every level in the order `write` must produce (see `names_key`)
fn canon<const N: usize>(m: &M<N>) -> M<N> {
	let mut m = m.clone();
	for c in m.classes.values_mut() {
		for me in c.methods.values_mut() {
			me.parameters = sorted_by(std::mem::take(&mut me.parameters), |a, b| (a.1.info.index, names_key(&a.1.info.names)).cmp(&(b.1.info.index, names_key(&b.1.info.names))));
		}
		c.methods = sorted_by(std::mem::take(&mut c.methods), |a, b| (cps(a.1.info.desc.as_inner()), names_key(&a.1.info.names)).cmp(&(cps(b.1.info.desc.as_inner()), names_key(&b.1.info.names))));
		c.fields = sorted_by(std::mem::take(&mut c.fields), |a, b| (cps(a.1.info.desc.as_inner()), names_key(&a.1.info.names)).cmp(&(cps(b.1.info.desc.as_inner()), names_key(&b.1.info.names))));
	}
	m.classes = sorted_by(std::mem::take(&mut m.classes), |a, b| names_key(&a.1.info.names).cmp(&names_key(&b.1.info.names)));
	m
}

/// every level ordered by key: two sets have the same content iff these are equal
fn by_key<const N: usize>(m: &M<N>) -> M<N> {
	let mut m = m.clone();
	for c in m.classes.values_mut() {
		for me in c.methods.values_mut() {
			me.parameters = sorted_by(std::mem::take(&mut me.parameters), |a, b| a.0.index.cmp(&b.0.index));
		}
		c.methods = sorted_by(std::mem::take(&mut c.methods), |a, b| (a.0.name.as_inner(), a.0.desc.as_inner()).cmp(&(b.0.name.as_inner(), b.0.desc.as_inner())));
		c.fields = sorted_by(std::mem::take(&mut c.fields), |a, b| (a.0.name.as_inner(), a.0.desc.as_inner()).cmp(&(b.0.name.as_inner(), b.0.desc.as_inner())));
	}
	m.classes = sorted_by(std::mem::take(&mut m.classes), |a, b| a.0.as_inner().cmp(b.0.as_inner()));
	m
}

enum Written { Text(String), Panic, Err }

/// `write_vec` under `catch_unwind` (before fix 4f3eba6 a name that was not UTF-8 made `std::io::Write::write_fmt` panic)
fn write_text<const N: usize>(m: &M<N>) -> Written {
	match std::panic::catch_unwind(std::panic::AssertUnwindSafe(|| quill::tiny_v2::write_vec(m))) {
		Err(_) => Written::Panic,
		Ok(Err(_)) => Written::Err,
		Ok(Ok(v)) => match String::from_utf8(v) { Ok(t) => Written::Text(t), Err(_) => Written::Err },
	}
}
fn written_opt<const N: usize>(m: &M<N>) -> Option<String> { match write_text(m) { Written::Text(t) => Some(t), _ => None } }

// ---- the text seen as lines (own re-implementation of `BufRead::lines` + `TinyLine::new`, used by the oracles only)

#[derive(PartialEq, Clone)]
struct TL { indent: usize, first: String, fields: Vec<String> }

/// all lines: the header line first
fn all_lines(text: &str) -> Vec<TL> {
	use std::io::BufRead;
	let mut v = Vec::new();
	for l in text.as_bytes().lines() {
		let Ok(l) = l else { break };
		let indent = l.chars().take_while(|c| *c == '\t').count();
		let mut it = l[indent..].split('\t').map(|x| x.to_owned());
		let first = it.next().unwrap_or_default();
		v.push(TL { indent, first, fields: it.collect() });
	}
	v
}

/// the lines after the header line (mirror of `(textLines t).tail`)
fn tail_lines(text: &str) -> Vec<TL> { let mut v = all_lines(text); if !v.is_empty() { v.remove(0); } v }

/// the header's own section (the lines before the first one at indentation 0) and the body (mirror of `headerPart` / `bodyPart`)
fn split_header(tail: &[TL]) -> (&[TL], &[TL]) {
	let k = tail.iter().position(|l| l.indent == 0).unwrap_or(tail.len());
	tail.split_at(k)
}

fn body_lines(text: &str) -> Vec<TL> { let t = tail_lines(text); split_header(&t).1.to_vec() }

/// own `unescape` for the oracle (the one of `tiny_v2.rs` is private)
fn unesc(s: &str) -> String {
	let mut out = String::new();
	let mut it = s.chars().peekable();
	while let Some(c) = it.next() {
		if c != '\\' { out.push(c); continue; }
		let rep = match it.peek() { Some('\\') => Some('\\'), Some('n') => Some('\n'), Some('r') => Some('\r'), Some('t') => Some('\t'), _ => None };
		match rep { Some(x) => { it.next(); out.push(x); } None => out.push('\\') }
	}
	out
}

/// mirror of `Tiny.headerDocLines`
fn header_doc_lines(tail: &[TL]) -> Vec<&TL> { split_header(tail).0.iter().filter(|l| l.first == "c").collect() }

/// mirror of `Tiny.headerDoc`: the cell of the first comment line of the header section, unescaped
fn header_doc(tail: &[TL]) -> Option<String> {
	let l = header_doc_lines(tail).into_iter().next()?;
	if l.fields.len() == 1 { Some(unesc(&l.fields[0])) } else { None }
}

/// mirror of `Tiny.headerBad`
fn header_bad(tail: &[TL]) -> bool { split_header(tail).0.iter().any(|l| l.indent >= 2) || header_doc_lines(tail).len() >= 2 }

/// mirror of `Tiny.ignoredAt`
fn ignored_at(ls: &[TL], ls2: &[TL], k: usize) -> bool {
	let Some(l) = ls.get(k) else { return false };
	let mut erased = ls.to_vec();
	erased.remove(k);
	ls[..k].iter().all(|x| x.indent != 0) && l.indent == 1 && l.first != "c" && ls2 == erased.as_slice()
}

/// mirror of `Tiny.orphanAt`
fn orphan_at(ls: &[TL], k: usize) -> bool {
	let (Some(l0), Some(l)) = (ls.get(k), k.checked_add(1).and_then(|k1| ls.get(k1))) else { return false };
	l0.indent == 0 && l0.first != "c" && l.indent >= 1
}

/// classes, fields, methods, parameters, comments the reader must produce for the body (mirror of `Tiny.lineKinds`)
fn expected_counts(body: &[TL]) -> [usize; 5] {
	let mut n = [0usize; 5];
	let mut method = false;
	for l in body {
		let f = l.first.as_str();
		let k = match l.indent {
			0 => if f == "c" { Some(0) } else { None },
			1 => match f { "f" => Some(1), "m" => Some(2), "c" => Some(4), _ => None },
			2 => if method { match f { "p" => Some(3), "c" => Some(4), _ => None } } else if f == "c" { Some(4) } else { None },
			_ => if f == "c" { Some(4) } else { None },
		};
		if let Some(k) = k { n[k] += 1; }
		if l.indent == 1 { if f == "f" { method = false; } else if f == "m" { method = true; } }
	}
	n
}

fn actual_counts<const N: usize>(m: &M<N>) -> [usize; 5] {
	let d = |j: &Option<JavadocMapping>| usize::from(j.is_some());
	let mut n = [0usize; 5];
	n[0] = m.classes.len();
	for c in m.classes.values() {
		n[1] += c.fields.len();
		n[2] += c.methods.len();
		n[4] += d(&c.javadoc);
		for f in c.fields.values() { n[4] += d(&f.javadoc); }
		for me in c.methods.values() {
			n[3] += me.parameters.len();
			n[4] += d(&me.javadoc);
			for p in me.parameters.values() { n[4] += d(&p.javadoc); }
		}
	}
	n
}

/// unique keys need no check in an `IndexMap`; `wf` is the rest of `Tiny.wf`
fn is_line(l: &TL, indent: usize, first: &str) -> bool { l.indent == indent && l.first == first }
fn between(b: &[TL], i: usize, j: usize) -> &[TL] {
	let lo = (i + 1).min(b.len());
	let hi = lo.saturating_add(j.saturating_sub(i + 1)).min(b.len());
	&b[lo..hi]
}

/// mirror of `Tiny.dupAt`
fn dup_at(b: &[TL], m: usize, i: usize, j: usize) -> bool {
	let (Some(x), Some(y)) = (b.get(i), b.get(j)) else { return false };
	if i >= j { return false; }
	let two = |l: &TL| l.fields.iter().take(2).cloned().collect::<Vec<_>>();
	let class = is_line(x, 0, "c") && is_line(y, 0, "c") && x.fields.first() == y.fields.first();
	let member = |f: &str| is_line(x, 1, f) && is_line(y, 1, f) && two(x) == two(y) && between(b, i, j).iter().all(|l| l.indent >= 1);
	let idx = |l: &TL| l.fields.first().and_then(|s| s.parse::<usize>().ok());
	let param = b.get(m).is_some_and(|lm| m < i && is_line(lm, 1, "m")) && is_line(x, 2, "p") && is_line(y, 2, "p") && idx(x) == idx(y)
		&& between(b, m, i).iter().all(|l| l.indent >= 2) && between(b, i, j).iter().all(|l| l.indent >= 2);
	class || member("f") || member("m") || param
}

fn exec(op: &str, args: &[Sexp]) -> Ans {
	macro_rules! tr { ($e:expr) => { match $e { Ok(x) => x, Err(e) => return Ans::BadOp(e) } } }
	match (op, args) {
		("tiny-read", [n, t]) => {
			let n = tr!(n.as_nat());
			let t = tr!(t.as_string());
			with_n!(n, N, {
				match quill::tiny_v2::read::<N, NsMarker>(t.as_bytes()) { Ok(m) => Ans::Ok(to_sexp(&m)), Err(_) => Ans::err() }
			}, Ans::BadOp("n".into()))
		}
		("oracle-read-wf" | "oracle-read-counts" | "oracle-toplevel-doc", [n, t]) => {
			let n = tr!(n.as_nat());
			let t = tr!(t.as_string());
			with_n!(n, N, {
				let Ok(m) = quill::tiny_v2::read::<N, NsMarker>(t.as_bytes()) else { return Ans::out_of_domain() };
				let tail = tail_lines(&t);
				if op == "oracle-read-wf" {
					if wf(&m) { Ans::pass() } else { Ans::fail("not_wf") }
				} else if op == "oracle-toplevel-doc" {
					if m.javadoc.as_ref().map(|j| j.0.clone()) != header_doc(&tail) { Ans::fail("doc") }
					else if split_header(&tail).0.iter().all(|l| l.indent == 1) { Ans::pass() } else { Ans::fail("indent") }
				} else {
					let (e, a) = (expected_counts(split_header(&tail).1), actual_counts(&m));
					match (0..5).find(|&k| e[k] != a[k]) {
						None => if usize::from(m.javadoc.is_some()) == header_doc_lines(&tail).len() { Ans::pass() } else { Ans::fail("topdoc") },
						Some(k) => Ans::fail(["classes", "fields", "methods", "params", "docs"][k]),
					}
				}
			}, Ans::BadOp("n".into()))
		}
		("oracle-header-bad", [n, t]) => {
			let n = tr!(n.as_nat());
			let t = tr!(t.as_string());
			if !header_bad(&tail_lines(&t)) { return Ans::out_of_domain(); }
			with_n!(n, N, {
				match quill::tiny_v2::read::<N, NsMarker>(t.as_bytes()) { Err(_) => Ans::pass(), Ok(_) => Ans::fail("accepted") }
			}, Ans::BadOp("n".into()))
		}
		("oracle-orphan-indent", [n, t, k]) => {
			let n = tr!(n.as_nat());
			let t = tr!(t.as_string());
			let k = tr!(k.as_nat());
			if !orphan_at(&tail_lines(&t), k) { return Ans::out_of_domain(); }
			with_n!(n, N, {
				match quill::tiny_v2::read::<N, NsMarker>(t.as_bytes()) { Err(_) => Ans::pass(), Ok(_) => Ans::fail("accepted") }
			}, Ans::BadOp("n".into()))
		}
		("oracle-header-ignored", [n, t, t2, k]) => {
			let n = tr!(n.as_nat());
			let t = tr!(t.as_string());
			let t2 = tr!(t2.as_string());
			let k = tr!(k.as_nat());
			let (a, b) = (all_lines(&t), all_lines(&t2));
			if a.first() != b.first() || a.is_empty() || !ignored_at(&a[1..], &b[1..], k) { return Ans::out_of_domain(); }
			with_n!(n, N, {
				let x = quill::tiny_v2::read::<N, NsMarker>(t.as_bytes()).ok().map(|m| to_sexp(&m));
				let y = quill::tiny_v2::read::<N, NsMarker>(t2.as_bytes()).ok().map(|m| to_sexp(&m));
				if x == y { Ans::pass() } else { Ans::fail("differs") }
			}, Ans::BadOp("n".into()))
		}
		("oracle-dup", [n, t, m, i, j]) => {
			let n = tr!(n.as_nat());
			let t = tr!(t.as_string());
			let (m, i, j) = (tr!(m.as_nat()), tr!(i.as_nat()), tr!(j.as_nat()));
			if !dup_at(&body_lines(&t), m, i, j) { return Ans::out_of_domain(); }
			with_n!(n, N, {
				match quill::tiny_v2::read::<N, NsMarker>(t.as_bytes()) { Err(_) => Ans::pass(), Ok(_) => Ans::fail("accepted") }
			}, Ans::BadOp("n".into()))
		}
		("tiny-write" | "tiny-rt" | "oracle-rt" | "oracle-fixed-point" | "oracle-write-rejects", [m]) => {
			let n = tr!(mapcodec::ns_count(m));
			with_n!(n, N, {
				let m: M<N> = tr!(from_sexp(m));
				match op {
					"tiny-write" => match write_text(&m) { Written::Text(t) => Ans::Ok(Sexp::str(&t)), Written::Panic => Ans::ok_tag("panic"), Written::Err => Ans::err() },
					"tiny-rt" => {
						let t = match write_text(&m) { Written::Text(t) => t, Written::Panic => return Ans::ok_tag("panic"), Written::Err => return Ans::err() };
						match quill::tiny_v2::read::<N, NsMarker>(t.as_bytes()) { Ok(r) => Ans::Ok(to_sexp(&r)), Err(_) => Ans::err() }
					}
					"oracle-write-rejects" => match (write_text(&m), write_ok(&m)) {
						(Written::Panic, _) => Ans::fail("panic"),
						(Written::Text(_), true) | (Written::Err, false) => Ans::pass(),
						(Written::Text(_), false) => Ans::fail("accepted"),
						(Written::Err, true) => Ans::fail("refused"),
					},
					_ => {
						if !writable(&m) { return Ans::out_of_domain(); }
						let t = match write_text(&m) { Written::Text(t) => t, Written::Panic => return Ans::fail("write_panic"), Written::Err => return Ans::fail("write_err") };
						let Ok(r) = quill::tiny_v2::read::<N, NsMarker>(t.as_bytes()) else { return Ans::fail("read_err") };
						if op == "oracle-rt" {
							if to_sexp(&r) == to_sexp(&canon(&m)) { Ans::pass() } else { Ans::fail("differs") }
						} else if written_opt(&r).as_deref() == Some(&t) { Ans::pass() } else { Ans::fail("differs") }
					}
				}
			}, Ans::BadOp("n".into()))
		}
		("oracle-perm", [a, b]) => {
			let n = tr!(mapcodec::ns_count(a));
			with_n!(n, N, {
				let a: M<N> = tr!(from_sexp(a));
				let b: M<N> = tr!(from_sexp(b));
				if !(wf(&a) && wf(&b) && to_sexp(&by_key(&a)) == to_sexp(&by_key(&b))) { return Ans::out_of_domain(); }
				if written_opt(&a) == written_opt(&b) { Ans::pass() } else { Ans::fail("differs") }
			}, Ans::BadOp("n".into()))
		}
		_ => Ans::BadOp("unknown op".into()),
	}
}

fn main() { main_for(&gen, &exec) }
