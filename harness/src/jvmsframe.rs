//! C20: frame walker of a class file as the JVMS prescribes it (SE 21 §4.1, §4.4, §4.7) — independent of raw_class_file.
//!
//! Same algorithm as `JvmsRaw.Walk` in /verif/lean/FeatherModel/Spec/JvmsRaw.lean (the two are compared by the op
//! `jvms-frame`): it follows constant-pool slots, counts and `attribute_length`s, checks for every predefined attribute
//! that its body has the JVMS shape and exactly `attribute_length` bytes, and accepts iff the input is consumed exactly.
//! A long or double entry takes two constant-pool indices (§4.4.5); an entry that ends past `constant_pool_count - 1` is
//! malformed.

type P<'a> = Option<&'a [u8]>;

fn n1(b: &[u8]) -> Option<(usize, &[u8])> { b.split_first().map(|(a, r)| (*a as usize, r)) }
fn n2(b: &[u8]) -> Option<(usize, &[u8])> { if b.len() >= 2 { Some((((b[0] as usize) << 8) | b[1] as usize, &b[2..])) } else { None } }
fn n4(b: &[u8]) -> Option<(usize, &[u8])> {
	if b.len() >= 4 { Some((((b[0] as usize) << 24) | ((b[1] as usize) << 16) | ((b[2] as usize) << 8) | b[3] as usize, &b[4..])) } else { None }
}
fn skip(n: usize, b: &[u8]) -> P<'_> { if n <= b.len() { Some(&b[n..]) } else { None } }
fn rep<'a>(f: &dyn Fn(&'a [u8]) -> P<'a>, n: usize, mut b: &'a [u8]) -> P<'a> {
	for _ in 0..n { b = f(b)?; }
	Some(b)
}
fn tbl1<'a>(f: &dyn Fn(&'a [u8]) -> P<'a>, b: &'a [u8]) -> P<'a> { let (n, r) = n1(b)?; rep(f, n, r) }
fn tbl2<'a>(f: &dyn Fn(&'a [u8]) -> P<'a>, b: &'a [u8]) -> P<'a> { let (n, r) = n2(b)?; rep(f, n, r) }

fn vti(b: &[u8]) -> P<'_> {
	let (t, r) = n1(b)?;
	if t <= 6 { Some(r) } else if t <= 8 { skip(2, r) } else { None }
}

fn frame(b: &[u8]) -> P<'_> {
	let (t, r) = n1(b)?;
	if t <= 63 { Some(r) }
	else if t <= 127 { vti(r) }
	else if t == 247 { vti(skip(2, r)?) }
	else if (248..=251).contains(&t) { skip(2, r) }
	else if (252..=254).contains(&t) { rep(&vti, t - 251, skip(2, r)?) }
	else if t == 255 { tbl2(&vti, tbl2(&vti, skip(2, r)?)?) }
	else { None }
}

fn element_value(fuel: usize, b: &[u8]) -> P<'_> {
	if fuel == 0 { return None; }
	let f = fuel - 1;
	let (t, r) = n1(b)?;
	match t {
		66 | 67 | 68 | 70 | 73 | 74 | 83 | 90 | 115 | 99 => skip(2, r),
		101 => skip(4, r),
		64 => annotation(f, r),
		91 => tbl2(&|x| element_value(f, x), r),
		_ => None,
	}
}

fn annotation(fuel: usize, b: &[u8]) -> P<'_> {
	if fuel == 0 { return None; }
	let f = fuel - 1;
	tbl2(&|x| element_value(f, skip(2, x)?), skip(2, b)?)
}

fn module_body(b: &[u8]) -> P<'_> {
	let b = skip(6, b)?;
	let b = tbl2(&|x| skip(6, x), b)?;
	let b = tbl2(&|x| tbl2(&|y| skip(2, y), skip(4, x)?), b)?;
	let b = tbl2(&|x| tbl2(&|y| skip(2, y), skip(4, x)?), b)?;
	let b = tbl2(&|x| skip(2, x), b)?;
	tbl2(&|x| tbl2(&|y| skip(2, y), skip(2, x)?), b)
}

type Utf8s<'a> = Vec<(usize, &'a [u8])>;

fn utf8_at<'a>(pool: &Utf8s<'a>, i: usize) -> Option<&'a [u8]> {
	// most recent binding first, like the association list of the Lean walker (indices are unique anyway)
	pool.iter().rev().find(|(k, _)| *k == i).map(|(_, v)| *v)
}

fn attr_info<'a>(pool: &Utf8s<'_>, fuel: usize, b: &'a [u8]) -> P<'a> {
	if fuel == 0 { return None; }
	let f = fuel - 1;
	let (ni, r1) = n2(b)?;
	let (len, r2) = n4(r1)?;
	if len > r2.len() { return None; }
	let name = utf8_at(pool, ni)?;
	let body = &r2[..len];
	let rest = &r2[len..];
	let attributes = |x: &'a [u8]| -> P<'a> { tbl2(&|y| attr_info(pool, f, y), x) };
	let res: Option<P<'a>> = match name {
		b"ConstantValue" => Some(skip(2, body)),
		b"Code" => Some((|| {
			let x = skip(4, body)?;
			let (n, x) = n4(x)?;
			let x = skip(n, x)?;
			let x = tbl2(&|y| skip(8, y), x)?;
			attributes(x)
		})()),
		b"StackMapTable" => Some(tbl2(&frame, body)),
		b"Exceptions" => Some(tbl2(&|x| skip(2, x), body)),
		b"InnerClasses" => Some(tbl2(&|x| skip(8, x), body)),
		b"EnclosingMethod" => Some(skip(4, body)),
		b"Synthetic" => Some(skip(0, body)),
		b"Signature" => Some(skip(2, body)),
		b"SourceFile" => Some(skip(2, body)),
		b"LineNumberTable" => Some(tbl2(&|x| skip(4, x), body)),
		b"LocalVariableTable" => Some(tbl2(&|x| skip(10, x), body)),
		b"LocalVariableTypeTable" => Some(tbl2(&|x| skip(10, x), body)),
		b"Deprecated" => Some(skip(0, body)),
		b"RuntimeVisibleAnnotations" | b"RuntimeInvisibleAnnotations" => Some(tbl2(&|x| annotation(len, x), body)),
		b"RuntimeVisibleParameterAnnotations" | b"RuntimeInvisibleParameterAnnotations" =>
			Some(tbl1(&|x| tbl2(&|y| annotation(len, y), x), body)),
		b"AnnotationDefault" => Some(element_value(len + 1, body)),
		b"BootstrapMethods" => Some(tbl2(&|x| tbl2(&|y| skip(2, y), skip(2, x)?), body)),
		b"MethodParameters" => Some(tbl1(&|x| skip(4, x), body)),
		b"Module" => Some(module_body(body)),
		b"ModulePackages" => Some(tbl2(&|x| skip(2, x), body)),
		b"ModuleMainClass" => Some(skip(2, body)),
		b"NestHost" => Some(skip(2, body)),
		b"NestMembers" => Some(tbl2(&|x| skip(2, x), body)),
		b"Record" => Some(tbl2(&|x| attributes(skip(4, x)?), body)),
		b"PermittedSubclasses" => Some(tbl2(&|x| skip(2, x), body)),
		_ => None,
	};
	match res {
		None => Some(rest),
		Some(Some(r)) if r.is_empty() => Some(rest),
		Some(_) => None,
	}
}

/// §4.1: the whole input is one well-framed class file
pub fn class_file(bs: &[u8]) -> bool {
	(|| -> Option<bool> {
		let (magic, r0) = n4(bs)?;
		if magic != 0xCAFEBABE { return None; }
		let r1 = skip(4, r0)?;
		let (count, mut r) = n2(r1)?;
		if count == 0 { return None; }
		let mut utf8s: Utf8s = Vec::new();
		let mut i = 1usize;
		// the Lean walker has `count + 1` steps of fuel: one per entry plus the final test
		let mut fuel = count + 1;
		loop {
			if fuel == 0 { return None; }
			fuel -= 1;
			if i == count { break; }
			if i > count { return None; }
			let (t, x) = n1(r)?;
			match t {
				1 => { let (n, y) = n2(x)?; if n > y.len() { return None; } utf8s.push((i, &y[..n])); r = &y[n..]; i += 1; }
				3 | 4 | 9 | 10 | 11 | 12 | 17 | 18 => { r = skip(4, x)?; i += 1; }
				5 | 6 => { r = skip(8, x)?; i += 2; }
				7 | 8 | 16 | 19 | 20 => { r = skip(2, x)?; i += 1; }
				15 => { r = skip(3, x)?; i += 1; }
				_ => return None,
			}
		}
		let fuel = bs.len() + 1;
		let attributes = |x| tbl2(&|y| attr_info(&utf8s, fuel, y), x);
		let member = |x| attributes(skip(6, x)?);
		let r = skip(6, r)?;
		let r = tbl2(&|x| skip(2, x), r)?;
		let r = tbl2(&member, r)?;
		let r = tbl2(&member, r)?;
		let r = attributes(r)?;
		Some(r.is_empty())
	})().unwrap_or(false)
}
