//! C17: independent framing parser of class files (JVMS §4.1, §4.4, §4.7) — shares no code with duke.
//!
//! It computes what the Lean model `Visit.ClassFrame` needs: for every attribute its name class, declared length, the
//! number of bytes its JVMS layout spans (`used`, by walking the content) and a small fingerprint of its content that a
//! visitor can recompute from the event it receives (entry counts, element-value-pair counts).
use crate::sexp::Sexp;

pub const KINDS: &[(&str, &str)] = &[
	("Deprecated", "dep"), ("Synthetic", "syn"), ("InnerClasses", "inner"), ("EnclosingMethod", "encl"), ("Signature", "sig"),
	("SourceFile", "srcfile"), ("SourceDebugExtension", "srcdbg"), ("RuntimeVisibleAnnotations", "rva"),
	("RuntimeInvisibleAnnotations", "ria"), ("RuntimeVisibleTypeAnnotations", "rvta"), ("RuntimeInvisibleTypeAnnotations", "rita"),
	("Module", "module"), ("ModulePackages", "modpkgs"), ("ModuleMainClass", "modmain"), ("NestHost", "nesthost"),
	("NestMembers", "nestmem"), ("PermittedSubclasses", "permitted"), ("Record", "record"), ("BootstrapMethods", "bsm"),
	("ConstantValue", "constval"), ("Code", "code"), ("Exceptions", "exc"), ("RuntimeVisibleParameterAnnotations", "rvpa"),
	("RuntimeInvisibleParameterAnnotations", "ripa"), ("AnnotationDefault", "annodef"), ("MethodParameters", "mparams"),
	("StackMapTable", "smt"), ("StackMap", "smap"), ("LineNumberTable", "lnt"), ("LocalVariableTable", "lvt"),
	("LocalVariableTypeTable", "lvtt"),
];

pub fn kind_of(name: &[u8]) -> &'static str {
	KINDS.iter().find(|(n, _)| n.as_bytes() == name).map(|(_, k)| *k).unwrap_or("other")
}

#[derive(Clone, Debug)]
pub struct Attr {
	pub k: &'static str,
	pub len: usize,
	pub used: usize,
	pub pay: Vec<usize>,
	/// offset of `attribute_name_index` in the file
	pub off: usize,
}

#[derive(Clone, Debug)]
pub struct Code { pub len: usize, pub hdr: usize, pub maxs: usize, pub insns: usize, pub exc: usize, pub attrs: Vec<Attr>, pub off: usize }

#[derive(Clone, Debug)]
pub enum MAttr { Leaf(Attr), Code(Code) }

#[derive(Clone, Debug)]
pub struct RecComp { pub h: usize, pub attrs: Vec<Attr> }

#[derive(Clone, Debug)]
pub enum CAttr { Leaf(Attr), Record { len: usize, comps: Vec<RecComp>, off: usize } }

#[derive(Clone, Debug)]
pub struct Member<A> {
	pub h: usize,
	pub attrs: Vec<A>,
	pub off: usize,
	/// `name_index` and `descriptor_index` name `CONSTANT_Utf8` entries and the name is a valid unqualified (method) name
	/// (JVMS §4.2.2) — what a reader that visits the member has to resolve, and a reader that skips it never looks at
	pub ok: bool,
}

#[derive(Clone, Debug)]
pub struct Frame {
	pub hdr_ok: bool,
	pub hdr: usize,
	pub h: usize,
	pub fields: Vec<Member<Attr>>,
	pub methods: Vec<Member<MAttr>>,
	pub attrs: Vec<CAttr>,
	/// offset of the class `attributes_count`
	pub attrs_off: usize,
	/// length in bytes as laid out by the declared lengths
	pub size: usize,
}

struct Rd<'a> { b: &'a [u8], p: usize }
impl<'a> Rd<'a> {
	fn u1(&mut self) -> Option<usize> { let v = *self.b.get(self.p)? as usize; self.p += 1; Some(v) }
	fn u2(&mut self) -> Option<usize> { Some((self.u1()? << 8) | self.u1()?) }
	fn u4(&mut self) -> Option<usize> { Some((self.u2()? << 16) | self.u2()?) }
	fn skip(&mut self, n: usize) -> Option<()> { if self.p + n <= self.b.len() { self.p += n; Some(()) } else { None } }
}

fn element_value(r: &mut Rd, depth: usize) -> Option<()> {
	if depth > 64 { return None; }
	match r.u1()? as u8 {
		b'B' | b'C' | b'D' | b'F' | b'I' | b'J' | b'S' | b'Z' | b's' | b'c' => r.skip(2),
		b'e' => r.skip(4),
		b'@' => annotation(r, depth + 1).map(|_| ()),
		b'[' => { let n = r.u2()?; for _ in 0..n { element_value(r, depth + 1)?; } Some(()) }
		_ => None,
	}
}

/// returns the number of element-value pairs
fn annotation(r: &mut Rd, depth: usize) -> Option<usize> {
	r.skip(2)?;
	let n = r.u2()?;
	for _ in 0..n { r.skip(2)?; element_value(r, depth)?; }
	Some(n)
}

fn annotations(r: &mut Rd) -> Option<Vec<usize>> {
	let n = r.u2()?;
	(0..n).map(|_| annotation(r, 0)).collect()
}

fn type_annotations(r: &mut Rd) -> Option<Vec<usize>> {
	let n = r.u2()?;
	let mut out = Vec::new();
	for _ in 0..n {
		match r.u1()? {
			0x00 | 0x01 | 0x16 => r.skip(1)?,
			0x10 | 0x11 | 0x12 | 0x17 | 0x42 | 0x43 | 0x44 | 0x45 | 0x46 => r.skip(2)?,
			0x13 | 0x14 | 0x15 => {}
			0x40 | 0x41 => { let t = r.u2()?; r.skip(6 * t)?; }
			0x47..=0x4B => r.skip(3)?,
			_ => return None,
		}
		let pl = r.u1()?;
		r.skip(2 * pl)?;
		out.push(annotation(r, 0)?);
	}
	Some(out)
}

fn vti(r: &mut Rd) -> Option<()> {
	match r.u1()? { 0..=6 => Some(()), 7 | 8 => r.skip(2), _ => None }
}

fn stack_map_table(r: &mut Rd) -> Option<usize> {
	let n = r.u2()?;
	for _ in 0..n {
		match r.u1()? {
			0..=63 => {}
			64..=127 => vti(r)?,
			247 => { r.skip(2)?; vti(r)? }
			248..=251 => r.skip(2)?,
			t @ 252..=254 => { r.skip(2)?; for _ in 0..(t - 251) { vti(r)?; } }
			255 => { r.skip(2)?; let l = r.u2()?; for _ in 0..l { vti(r)?; } let s = r.u2()?; for _ in 0..s { vti(r)?; } }
			_ => return None,
		}
	}
	Some(n)
}

fn stack_map_old(r: &mut Rd) -> Option<usize> {
	let n = r.u2()?;
	for _ in 0..n {
		r.skip(2)?;
		let l = r.u2()?; for _ in 0..l { vti(r)?; }
		let s = r.u2()?; for _ in 0..s { vti(r)?; }
	}
	Some(n)
}

fn module_body(r: &mut Rd) -> Option<()> {
	r.skip(6)?;
	let n = r.u2()?; r.skip(6 * n)?;
	for _ in 0..2 { let n = r.u2()?; for _ in 0..n { r.skip(4)?; let k = r.u2()?; r.skip(2 * k)?; } }
	let n = r.u2()?; r.skip(2 * n)?;
	let n = r.u2()?; for _ in 0..n { r.skip(2)?; let k = r.u2()?; r.skip(2 * k)?; }
	Some(())
}

/// (used, fingerprint) of a leaf attribute body by its JVMS layout; `None` when the body does not have that layout
fn leaf_body(k: &str, body: &[u8]) -> Option<(usize, Vec<usize>)> {
	let mut r = Rd { b: body, p: 0 };
	let pay = match k {
		"dep" | "syn" => vec![],
		"constval" | "sig" | "srcfile" | "modmain" | "nesthost" => { r.skip(2)?; vec![] }
		"encl" => { r.skip(4)?; vec![] }
		"srcdbg" => { r.skip(body.len())?; vec![] }
		"inner" => { let n = r.u2()?; r.skip(8 * n)?; vec![n] }
		"modpkgs" | "nestmem" | "permitted" | "exc" => { let n = r.u2()?; r.skip(2 * n)?; vec![n] }
		"rva" | "ria" => annotations(&mut r)?,
		"rvta" | "rita" => type_annotations(&mut r)?,
		"module" => { module_body(&mut r)?; vec![] }
		"bsm" => { let n = r.u2()?; for _ in 0..n { r.skip(2)?; let a = r.u2()?; r.skip(2 * a)?; } vec![] }
		"annodef" => { element_value(&mut r, 0)?; vec![] }
		"mparams" => { let n = r.u1()?; r.skip(4 * n)?; vec![n] }
		"rvpa" | "ripa" => { r.skip(body.len())?; vec![] }
		"smt" => vec![stack_map_table(&mut r)?],
		"smap" => vec![stack_map_old(&mut r)?],
		"lnt" => { let n = r.u2()?; r.skip(4 * n)?; vec![n] }
		"lvt" | "lvtt" => { let n = r.u2()?; r.skip(10 * n)?; vec![n] }
		// names that are structural at another level (`Code`, `Record`) or not known at all: opaque bytes
		_ => { r.skip(body.len())?; vec![body.len()] }
	};
	Some((r.p, pay))
}

/// length of the instruction at `pc` (JVMS §6.5 operand sizes; switch padding is relative to the start of the array)
pub fn insn_len(code: &[u8], pc: usize) -> Option<usize> {
	let rd = |o: usize| -> Option<i64> { Some(i32::from_be_bytes(code.get(o..o + 4)?.try_into().ok()?) as i64) };
	Some(match *code.get(pc)? {
		0x10 | 0x12 | 0x15..=0x19 | 0x36..=0x3a | 0xa9 | 0xbc => 2,
		0x11 | 0x13 | 0x14 | 0x84 | 0x99..=0xa8 | 0xb2..=0xb8 | 0xbb | 0xbd | 0xc0 | 0xc1 | 0xc6 | 0xc7 => 3,
		0xc5 => 4,
		0xb9 | 0xba | 0xc8 | 0xc9 => 5,
		0xc4 => { if *code.get(pc + 1)? == 0x84 { 6 } else { 4 } }
		0xaa => {
			let base = (pc + 4) & !3;
			let (lo, hi) = (rd(base + 4)?, rd(base + 8)?);
			if hi < lo { return None; }
			base + 12 + 4 * ((hi - lo + 1) as usize) - pc
		}
		0xab => {
			let base = (pc + 4) & !3;
			let np = rd(base + 4)?;
			if np < 0 { return None; }
			base + 8 + 8 * (np as usize) - pc
		}
		0xca..=0xff => return None,
		_ => 1,
	})
}

/// start offsets of the instructions of a `code` array; `None` unless they tile it exactly
pub fn insn_starts(code: &[u8]) -> Option<Vec<usize>> {
	let mut out = Vec::new();
	let mut pc = 0;
	while pc < code.len() {
		out.push(pc);
		pc += insn_len(code, pc)?;
	}
	if pc == code.len() { Some(out) } else { None }
}

pub fn count_insns(code: &[u8]) -> Option<usize> { insn_starts(code).map(|v| v.len()) }

pub const L_CLASS: &[&str] = &["dep", "syn", "inner", "encl", "sig", "srcfile", "srcdbg", "rva", "ria", "rvta", "rita", "module",
	"modpkgs", "modmain", "nesthost", "nestmem", "permitted", "bsm"];
pub const L_FIELD: &[&str] = &["dep", "syn", "constval", "sig", "rva", "ria", "rvta", "rita"];
pub const L_METHOD: &[&str] = &["dep", "syn", "exc", "sig", "rva", "ria", "rvta", "rita", "rvpa", "ripa", "annodef", "mparams"];
pub const L_REC: &[&str] = &["sig", "rva", "ria", "rvta", "rita"];
pub const L_CODE: &[&str] = &["smt", "smap", "lnt", "lvt", "lvtt", "rvta", "rita"];

struct Ctx<'a> { b: &'a [u8], utf8: Vec<Option<&'a [u8]>> }

impl<'a> Ctx<'a> {
	fn name(&self, idx: usize) -> Option<&'a [u8]> { self.utf8.get(idx).copied().flatten() }

	/// attribute header at `r.p`: (kind, len, offset of the header, body slice); advances past the body
	fn attr_head(&self, r: &mut Rd<'a>) -> Option<(&'static str, usize, usize, &'a [u8])> {
		let off = r.p;
		let name = self.name(r.u2()?)?;
		let len = r.u4()?;
		let body = self.b.get(r.p..r.p + len)?;
		r.p += len;
		Some((kind_of(name), len, off, body))
	}

	/// `level`: the kinds JVMS Table 4.7-C places at this location; any other name is opaque bytes there
	fn leaf(&self, level: &[&str], k: &'static str, len: usize, off: usize, body: &[u8]) -> Option<Attr> {
		if k == "other" {
			// unknown name: fingerprint = body length and name length
			let name = self.name(((self.b[off] as usize) << 8) | self.b[off + 1] as usize)?;
			return Some(Attr { k, len, used: len, pay: vec![len, name.len()], off });
		}
		if !level.contains(&k) { return Some(Attr { k, len, used: len, pay: vec![len], off }); }
		let (used, pay) = leaf_body(k, body)?;
		Some(Attr { k, len, used, pay, off })
	}

	fn leafs(&self, level: &[&str], r: &mut Rd<'a>) -> Option<Vec<Attr>> {
		let n = r.u2()?;
		let mut out = Vec::new();
		for _ in 0..n {
			let (k, len, off, body) = self.attr_head(r)?;
			out.push(self.leaf(level, k, len, off, body)?);
		}
		Some(out)
	}

	fn code(&self, len: usize, off: usize, body: &'a [u8], body_off: usize) -> Option<Code> {
		let mut r = Rd { b: self.b, p: body_off };
		let max_stack = r.u2()?;
		let max_locals = r.u2()?;
		let cl = r.u4()?;
		let code = self.b.get(r.p..r.p + cl)?;
		r.p += cl;
		let insns = count_insns(code)?;
		let exc = r.u2()?;
		r.skip(8 * exc)?;
		let hdr = r.p - body_off;
		let attrs = self.leafs(L_CODE, &mut r)?;
		// the nested attributes must lie inside the body the length declares (they are laid out by their own lengths)
		let _ = body;
		Some(Code { len, hdr, maxs: max_stack * 65536 + max_locals, insns, exc, attrs, off })
	}
}

fn utf8_len_h(ctx: &Ctx, idx: usize) -> Option<usize> { Some(ctx.name(idx)?.len()) }

/// JVMS §4.2.2: unqualified names are non-empty and hold none of `. ; [ /`; method names also no `<` `>` except the two special ones
fn member_name_ok(name: &[u8], method: bool) -> bool {
	if method && (name == b"<init>" || name == b"<clinit>") { return true; }
	!name.is_empty() && !name.iter().any(|c| matches!(c, b'.' | b';' | b'[' | b'/') || (method && matches!(c, b'<' | b'>')))
}

/// (fingerprint, ok) of a member header
fn member_head(ctx: &Ctx, acc: usize, name: usize, desc: usize, method: bool) -> (usize, bool) {
	match (ctx.name(name), ctx.name(desc)) {
		(Some(n), Some(_)) if member_name_ok(n, method) => (member_h(acc as u16, n.len(), method), true),
		(n, _) => (member_h(acc as u16, n.map(|n| n.len()).unwrap_or(0), method), false),
	}
}

/// frame of the class file that starts at `b[0]`; `None` when the bytes are not laid out as a class file with
/// attribute bodies of their JVMS shape (used for generator inputs only — the executor never looks at frames)
pub fn frame(b: &[u8]) -> Option<Frame> {
	let mut r = Rd { b, p: 0 };
	let magic = r.u4()?;
	let minor = r.u2()?;
	let major = r.u2()?;
	let hdr_ok = magic == 0xCAFEBABE && (major < 67 || (major == 67 && minor == 0));
	let count = r.u2()?;
	let mut utf8: Vec<Option<&[u8]>> = vec![None; count.max(1)];
	let mut i = 1;
	while i < count {
		match r.u1()? {
			1 => { let l = r.u2()?; utf8[i] = Some(b.get(r.p..r.p + l)?); r.p += l; }
			3 | 4 | 9 | 10 | 11 | 12 | 17 | 18 => r.skip(4)?,
			5 | 6 => { r.skip(8)?; i += 1; }
			7 | 8 | 16 | 19 | 20 => r.skip(2)?,
			15 => r.skip(3)?,
			_ => return None,
		}
		i += 1;
	}
	let ctx = Ctx { b, utf8 };
	let access = r.u2()?;
	r.skip(4)?;
	let ifs = r.u2()?;
	r.skip(2 * ifs)?;
	let hdr = r.p;
	let h = class_h(access as u16, major, ifs);
	let nf = r.u2()?;
	let mut fields = Vec::new();
	for _ in 0..nf {
		let off = r.p;
		let acc = r.u2()?; let name = r.u2()?; let desc = r.u2()?;
		let attrs = ctx.leafs(L_FIELD, &mut r)?;
		let (h, ok) = member_head(&ctx, acc, name, desc, false);
		fields.push(Member { h, attrs, off, ok });
	}
	let nm = r.u2()?;
	let mut methods = Vec::new();
	for _ in 0..nm {
		let off = r.p;
		let acc = r.u2()?; let name = r.u2()?; let desc = r.u2()?;
		let n = r.u2()?;
		let mut attrs = Vec::new();
		for _ in 0..n {
			let (k, len, aoff, body) = ctx.attr_head(&mut r)?;
			if k == "code" { attrs.push(MAttr::Code(ctx.code(len, aoff, body, aoff + 6)?)); }
			else { attrs.push(MAttr::Leaf(ctx.leaf(L_METHOD, k, len, aoff, body)?)); }
		}
		let (h, ok) = member_head(&ctx, acc, name, desc, true);
		methods.push(Member { h, attrs, off, ok });
	}
	let attrs_off = r.p;
	let n = r.u2()?;
	let mut attrs = Vec::new();
	for _ in 0..n {
		let (k, len, aoff, body) = ctx.attr_head(&mut r)?;
		if k == "record" {
			let mut q = Rd { b, p: aoff + 6 };
			let nc = q.u2()?;
			let mut comps = Vec::new();
			for _ in 0..nc {
				let name = q.u2()?; let _d = q.u2()?;
				let a = ctx.leafs(L_REC, &mut q)?;
				comps.push(RecComp { h: utf8_len_h(&ctx, name)?, attrs: a });
			}
			let _ = body;
			attrs.push(CAttr::Record { len, comps, off: aoff });
		} else {
			attrs.push(CAttr::Leaf(ctx.leaf(L_CLASS, k, len, aoff, body)?));
		}
	}
	Some(Frame { hdr_ok, hdr, h, fields, methods, attrs, attrs_off, size: r.p })
}

/// fingerprints of `visit_class` / `visit_field` / `visit_method` computed the same way by the recording visitor
pub fn class_h(access: u16, major: usize, interfaces: usize) -> usize { access as usize + 65536 * (major % 100) + 6553600 * (interfaces % 50) }
pub fn member_h(access: u16, name_len: usize, _method: bool) -> usize { access as usize + 65536 * (name_len % 1000) }

// ---------------------------------------------------------------- S-expressions (grammar of Driver/C17.lean)

fn nat(n: usize) -> Sexp { Sexp::nat(n) }
fn pay(p: &[usize]) -> Sexp { Sexp::list(p.iter().map(|x| nat(*x)).collect()) }

impl Attr {
	pub fn sexp(&self) -> Sexp { Sexp::list(vec![Sexp::tag(self.k), nat(self.len), nat(self.used), pay(&self.pay)]) }
}
fn attrs_sexp(a: &[Attr]) -> Sexp { Sexp::list(a.iter().map(|x| x.sexp()).collect()) }

impl Frame {
	pub fn sexp(&self) -> Sexp {
		// a member is `(h attrs)`; one whose name / descriptor does not resolve is `(h attrs f)`
		let member = |h: usize, attrs: Sexp, ok: bool| if ok { Sexp::list(vec![nat(h), attrs]) } else { Sexp::list(vec![nat(h), attrs, Sexp::bool(false)]) };
		let fields = self.fields.iter().map(|f| member(f.h, attrs_sexp(&f.attrs), f.ok)).collect();
		let methods = self.methods.iter().map(|m| member(m.h, Sexp::list(m.attrs.iter().map(|a| match a {
			MAttr::Leaf(a) => a.sexp(),
			MAttr::Code(c) => Sexp::list(vec![Sexp::tag("Code"), nat(c.len), nat(c.hdr), nat(c.maxs), nat(c.insns), nat(c.exc), attrs_sexp(&c.attrs)]),
		}).collect()), m.ok)).collect();
		let attrs = self.attrs.iter().map(|a| match a {
			CAttr::Leaf(a) => a.sexp(),
			CAttr::Record { len, comps, .. } => Sexp::list(vec![Sexp::tag("Record"), nat(*len),
				Sexp::list(comps.iter().map(|c| Sexp::list(vec![nat(c.h), attrs_sexp(&c.attrs)])).collect())]),
		}).collect();
		Sexp::list(vec![Sexp::bool(self.hdr_ok), nat(self.hdr), nat(self.h), Sexp::list(fields), Sexp::list(methods), Sexp::list(attrs)])
	}
	pub fn n_recs(&self) -> usize {
		self.attrs.iter().map(|a| match a { CAttr::Record { comps, .. } => comps.len(), _ => 0 }).max().unwrap_or(0)
	}
}

/// frames of class files laid back to back
pub fn frames(mut b: &[u8]) -> Option<Vec<Frame>> {
	let mut out = Vec::new();
	while !b.is_empty() {
		let f = frame(b)?;
		if f.size == 0 || f.size > b.len() { return None; }
		b = &b[f.size..];
		out.push(f);
	}
	Some(out)
}
