//! C20: generic values and layout tables of raw_class_file (hand-written part; the tables and the conversions from / to the
//! crate's types are generated into `rawcodec_gen.rs` by /verif/translate/notation_to_lean.py).
//!
//! `fits` is the decidable domain predicate of the round-trip theorems (`RawLayout.fitsV` in the Lean model), evaluated
//! here on the harness side so that the domain itself is correspondence-checked.  It only uses the tables.
use crate::sexp::Sexp;

#[derive(Debug, Clone, PartialEq)]
pub enum Val {
	Num(u64),
	List(Vec<Val>),
	Node(usize, Vec<Val>),
}

pub enum E {
	Lit(u64),
	Var(&'static str),
	LenOf(&'static str),
	/// `pool_slots(&this.x)`; the second component lists the variants for which `.slots()` answers 2
	SlotsOf(&'static str, &'static [usize]),
	ThisLen,
	Add(&'static E, &'static E),
	Sub(&'static E, &'static E),
	Mul(&'static E, &'static E),
}
pub struct TE { pub bits: u32, pub e: E }
pub enum Ty { Prim(u8), VecCnt(u8, &'static Ty), VecLen(TE, &'static Ty), VecSlots(TE, &'static [usize], &'static Ty), Ref(usize) }
pub struct ConstD { pub name: &'static str, pub bytes: u8, pub e: TE, pub lit: Option<u64> }
pub enum FieldKind { Field(Ty, bool), NoWrite(u8, TE) }
pub struct FieldD { pub name: &'static str, pub kind: FieldKind, pub post: &'static [ConstD] }
pub struct BodyD { pub pre: &'static [ConstD], pub fields: &'static [FieldD] }
pub enum PatD { Lit(u64), Range(u64, u64), Any }
pub struct VariantD {
	pub name: &'static str,
	pub tag: TE,
	pub pat: PatD,
	pub bind: Option<&'static str>,
	pub guard: Option<&'static [u8]>,
	pub body: BodyD,
}
pub enum DefD {
	Struct { name: &'static str, body: BodyD },
	Enum { name: &'static str, tag_name: &'static str, tag_bytes: u8, fallback: bool, variants: &'static [VariantD] },
}

impl DefD {
	pub fn name(&self) -> &'static str { match self { DefD::Struct { name, .. } | DefD::Enum { name, .. } => name } }
}

// ---------------------------------------------------------------- helpers used by the generated conversions

pub fn node(v: &Val) -> Option<(usize, &[Val])> { match v { Val::Node(k, fs) => Some((*k, fs)), _ => None } }
pub fn list(v: &Val) -> Option<&[Val]> { match v { Val::List(vs) => Some(vs), _ => None } }
pub fn num_u8(v: &Val) -> Option<u8> { match v { Val::Num(n) => u8::try_from(*n).ok(), _ => None } }
pub fn num_u16(v: &Val) -> Option<u16> { match v { Val::Num(n) => u16::try_from(*n).ok(), _ => None } }
pub fn num_u32(v: &Val) -> Option<u32> { match v { Val::Num(n) => u32::try_from(*n).ok(), _ => None } }

// ---------------------------------------------------------------- line protocol
// num -> decimal atom ; list -> `()` when empty, `x<hex>` when all elements are numbers < 256, `(v …)` otherwise ;
// node -> `(n k f …)`.  Type-free, so both sides print identically.

pub fn val_to_sexp(v: &Val) -> Sexp {
	match v {
		Val::Num(n) => Sexp::Atom(n.to_string()),
		Val::List(vs) => {
			if !vs.is_empty() && vs.iter().all(|x| matches!(x, Val::Num(n) if *n < 256)) {
				let b: Vec<u8> = vs.iter().map(|x| match x { Val::Num(n) => *n as u8, _ => 0 }).collect();
				Sexp::bytes(&b)
			} else {
				Sexp::List(vs.iter().map(val_to_sexp).collect())
			}
		}
		Val::Node(k, fs) => {
			let mut out = vec![Sexp::tag("n"), Sexp::nat(*k)];
			out.extend(fs.iter().map(val_to_sexp));
			Sexp::List(out)
		}
	}
}

pub fn val_from_sexp(s: &Sexp) -> Result<Val, String> {
	match s {
		Sexp::Atom(a) => {
			if a.starts_with('x') {
				Ok(Val::List(s.as_bytes()?.into_iter().map(|b| Val::Num(b as u64)).collect()))
			} else {
				a.parse::<u64>().map(Val::Num).map_err(|e| format!("bad number {a}: {e}"))
			}
		}
		Sexp::List(xs) => match xs.first() {
			Some(Sexp::Atom(t)) if t == "n" => {
				let k = xs.get(1).ok_or("node without variant")?.as_nat()?;
				Ok(Val::Node(k, xs[2..].iter().map(val_from_sexp).collect::<Result<_, _>>()?))
			}
			_ => Ok(Val::List(xs.iter().map(val_from_sexp).collect::<Result<_, _>>()?)),
		},
	}
}

// ---------------------------------------------------------------- table interpreter pieces needed for the domain predicate

fn bound(bytes: u8) -> u128 { 1u128 << (8 * bytes as u32) }

fn consts_len(cs: &[ConstD]) -> u128 { cs.iter().map(|c| c.bytes as u128).sum() }

/// mathematical `_len()`
pub fn len_v(defs: &[DefD], ty: &Ty, v: &Val) -> u128 {
	match (ty, v) {
		(Ty::Prim(b), Val::Num(_)) => *b as u128,
		(Ty::VecCnt(c, el), Val::List(vs)) => *c as u128 + vs.iter().map(|x| len_v(defs, el, x)).sum::<u128>(),
		(Ty::VecLen(_, el), Val::List(vs)) | (Ty::VecSlots(_, _, el), Val::List(vs)) => vs.iter().map(|x| len_v(defs, el, x)).sum::<u128>(),
		(Ty::Ref(id), Val::Node(k, fs)) => match defs.get(*id) {
			Some(DefD::Struct { body, .. }) => len_body(defs, body, fs),
			Some(DefD::Enum { tag_bytes, variants, .. }) => match variants.get(*k) {
				Some(var) => *tag_bytes as u128 + len_body(defs, &var.body, fs),
				None => 0,
			},
			None => 0,
		},
		_ => 0,
	}
}

fn len_body(defs: &[DefD], body: &BodyD, fs: &[Val]) -> u128 {
	let mut n = consts_len(body.pre);
	// mirrors lenFields: stops at the shorter of the two lists
	for (f, v) in body.fields.iter().zip(fs.iter()) {
		n += match &f.kind { FieldKind::Field(ty, _) => len_v(defs, ty, v), FieldKind::NoWrite(..) => 0 };
		n += consts_len(f.post);
	}
	n
}

/// `RawLayout.slotsV` / `slotsAll`
pub fn slots_v(wide: &[usize], v: &Val) -> u128 { match v { Val::Node(k, _) if wide.contains(k) => 2, _ => 1 } }
pub fn slots_all(wide: &[usize], vs: &[Val]) -> u128 { vs.iter().map(|v| slots_v(wide, v)).sum() }

fn len32(n: u128) -> Option<u128> { if n < (1u128 << 32) { Some(n) } else { None } }

struct WCtx<'a> { this_len: Option<u128>, fields: Vec<(&'static str, &'a Val)> }

fn checked(bits: u32, x: u128) -> Option<u128> { if x < (1u128 << bits) { Some(x) } else { None } }

fn eval_w(bits: u32, cx: &WCtx, e: &E) -> Option<u128> {
	match e {
		E::Lit(n) => Some(*n as u128),
		E::Var(x) => match cx.fields.iter().find(|(k, _)| k == x) { Some((_, Val::Num(n))) => Some(*n as u128), _ => None },
		E::LenOf(x) => match cx.fields.iter().find(|(k, _)| k == x) { Some((_, Val::List(vs))) => Some(vs.len() as u128), _ => None },
		E::SlotsOf(x, wide) => match cx.fields.iter().find(|(k, _)| k == x) { Some((_, Val::List(vs))) => Some(slots_all(wide, vs)), _ => None },
		E::ThisLen => cx.this_len,
		E::Add(a, b) => checked(bits, eval_w(bits, cx, a)? + eval_w(bits, cx, b)?),
		E::Sub(a, b) => { let (x, y) = (eval_w(bits, cx, a)?, eval_w(bits, cx, b)?); if y <= x { Some(x - y) } else { None } }
		E::Mul(a, b) => checked(bits, eval_w(bits, cx, a)?.checked_mul(eval_w(bits, cx, b)?)?),
	}
}

type Binds = Vec<(&'static str, u128)>;

fn eval_r(bits: u32, binds: &Binds, e: &E) -> Option<u128> {
	match e {
		E::Lit(n) => Some(*n as u128),
		E::Var(x) => binds.iter().rev().find(|(k, _)| k == x).map(|(_, n)| *n),
		E::LenOf(_) | E::SlotsOf(..) | E::ThisLen => None,
		E::Add(a, b) => checked(bits, eval_r(bits, binds, a)? + eval_r(bits, binds, b)?),
		E::Sub(a, b) => { let (x, y) = (eval_r(bits, binds, a)?, eval_r(bits, binds, b)?); if y <= x { Some(x - y) } else { None } }
		E::Mul(a, b) => checked(bits, eval_r(bits, binds, a)?.checked_mul(eval_r(bits, binds, b)?)?),
	}
}

fn pat_match(p: &PatD, t: u128) -> bool {
	match p { PatD::Lit(n) => t == *n as u128, PatD::Range(lo, hi) => *lo as u128 <= t && t <= *hi as u128, PatD::Any => true }
}

/// `RawLayout.poolGet`: the entry whose constant-pool index is `index` (the first one has index 1, each one follows the
/// one before it at the distance of its slots)
fn pool_get<'a>(wide: &[usize], pool: &'a [Val], index: u128) -> Option<&'a Val> {
	let mut at = 1u128;
	for e in pool {
		if at == index { return Some(e); }
		at += slots_v(wide, e);
	}
	None
}

/// Some(b) = guard evaluates to b ; None = the guard fails (error)
fn pool_has_utf8(utf8: usize, wide: &[usize], pool: Option<&[Val]>, index: u128, value: &[u8]) -> Option<bool> {
	let pool = pool?;
	match pool_get(wide, pool, index)? {
		Val::Node(k, fs) if *k == utf8 => match fs.as_slice() {
			[Val::List(bs)] => {
				let mut ns = Vec::new();
				for b in bs { match b { Val::Num(n) => ns.push(*n), _ => return None } }
				Some(ns.len() == value.len() && ns.iter().zip(value).all(|(a, b)| *a == *b as u64))
			}
			_ => None,
		},
		_ => None,
	}
}

/// index of the variant the reader dispatches to for `tag` (None: error / panic / no arm)
pub fn select_idx(utf8: usize, wide: &[usize], pool: Option<&[Val]>, tag: u128, variants: &[VariantD]) -> Option<usize> {
	for (i, v) in variants.iter().enumerate() {
		if !pat_match(&v.pat, tag) { continue; }
		match v.guard {
			None => return Some(i),
			Some(name) => if pool_has_utf8(utf8, wide, pool, tag, name)? { return Some(i); },
		}
	}
	None
}

fn consts_binds(cx: &WCtx, binds: &mut Binds, cs: &[ConstD]) -> bool {
	for c in cs {
		let Some(n) = eval_w(c.e.bits, cx, &c.e.e) else { return false };
		let w = n % bound(c.bytes);
		if let Some(l) = c.lit { if w != l as u128 { return false; } }
		binds.push((c.name, w));
	}
	true
}

/// `RawLayout.fitsV`
pub fn fits<'a>(defs: &[DefD], utf8: usize, wide: &[usize], pool: Option<&'a [Val]>, binds: &Binds, ty: &Ty, v: &'a Val) -> bool {
	match (ty, v) {
		(Ty::Prim(b), Val::Num(n)) => (*n as u128) < bound(*b),
		(Ty::VecCnt(c, el), Val::List(vs)) => (vs.len() as u128) < bound(*c) && vs.iter().all(|x| fits(defs, utf8, wide, pool, binds, el, x)),
		(Ty::VecLen(e, el), Val::List(vs)) => eval_r(e.bits, binds, &e.e) == Some(vs.len() as u128) && vs.iter().all(|x| fits(defs, utf8, wide, pool, binds, el, x)),
		(Ty::VecSlots(e, w, el), Val::List(vs)) => eval_r(e.bits, binds, &e.e) == Some(slots_all(w, vs)) && vs.iter().all(|x| fits(defs, utf8, wide, pool, binds, el, x)),
		(Ty::Ref(id), Val::Node(k, fs)) => {
			let this_len = len32(len_v(defs, ty, v));
			match defs.get(*id) {
				Some(DefD::Struct { body, .. }) => *k == 0 && fits_body(defs, utf8, wide, pool, Vec::new(), this_len, body, fs),
				Some(DefD::Enum { tag_name, tag_bytes, variants, .. }) => {
					let Some(var) = variants.get(*k) else { return false };
					let cx = WCtx { this_len, fields: var.body.fields.iter().map(|f| f.name).zip(fs.iter()).collect() };
					let Some(t) = eval_w(var.tag.bits, &cx, &var.tag.e) else { return false };
					let tag = t % bound(*tag_bytes);
					if select_idx(utf8, wide, pool, tag, variants) != Some(*k) { return false; }
					// lookups take the most recent binding: the pattern binding shadows the tag variable
					let mut head: Binds = vec![(*tag_name, tag)];
					if let Some(b) = var.bind { head.push((b, tag)); }
					fits_body(defs, utf8, wide, pool, head, this_len, &var.body, fs)
				}
				None => false,
			}
		}
		_ => false,
	}
}

fn fits_body<'a>(defs: &[DefD], utf8: usize, wide: &[usize], pool: Option<&'a [Val]>, mut binds: Binds, this_len: Option<u128>, body: &BodyD, fs: &'a [Val]) -> bool {
	if body.fields.len() != fs.len() { return false; }
	let cx = WCtx { this_len, fields: body.fields.iter().map(|f| f.name).zip(fs.iter()).collect() };
	if !consts_binds(&cx, &mut binds, body.pre) { return false; }
	let mut pool = pool;
	for (f, v) in body.fields.iter().zip(fs.iter()) {
		match &f.kind {
			FieldKind::Field(ty, sets_pool) => {
				if !fits(defs, utf8, wide, pool, &binds, ty, v) { return false; }
				if let Val::Num(n) = v { binds.push((f.name, *n as u128)); }
				if *sets_pool { if let Val::List(vs) = v { pool = Some(vs); } }
			}
			FieldKind::NoWrite(_, e) => {
				let (Val::Num(n), Some(m)) = (v, eval_r(e.bits, &binds, &e.e)) else { return false };
				if *n as u128 != m { return false; }
				binds.push((f.name, m));
			}
		}
		if !consts_binds(&cx, &mut binds, f.post) { return false; }
	}
	true
}
