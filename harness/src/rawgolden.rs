//! C20: one hand-written `raw_class_file::ClassFile` that names **every field of every struct and variant** of the crate
//! with a value that is distinct within its struct.
//!
//! The generated conversions and generators of `rawcodec_gen.rs` are positional, so exchanging two fields of equal width
//! in `lib.rs` is invisible to them.  Here the fields are addressed *by name*: this file does not compile any more when a
//! field is renamed, and the class converts to another generic value / other bytes when fields are reordered.  The Lean
//! driver holds the same class as a positional value in JVMS item order (`C20Driver.golden`, frozen while the theorem
//! `layouts_jvms` certified that the translated item names are in JVMS order), so the op `raw-golden` (value and
//! bytes) is compared like every other op and a same-width field swap becomes a concrete disagreement.
use raw_class_file::*;

fn u(s: &str) -> CpInfo { CpInfo::Utf8 { bytes: s.as_bytes().to_vec() } }

/// names of the attributes, in the order of their pool indices 1..=28 (index 29 = "Custom")
pub const ATTR_NAMES: [&str; 28] = [
	"ConstantValue", "Code", "StackMapTable", "Exceptions", "InnerClasses", "EnclosingMethod", "Synthetic", "Signature",
	"SourceFile", "SourceDebugExtension", "LineNumberTable", "LocalVariableTable", "LocalVariableTypeTable", "Deprecated",
	"RuntimeVisibleAnnotations", "RuntimeInvisibleAnnotations", "RuntimeVisibleParameterAnnotations",
	"RuntimeInvisibleParameterAnnotations", "AnnotationDefault", "BootstrapMethods", "MethodParameters", "Module",
	"ModulePackages", "ModuleMainClass", "NestHost", "NestMembers", "Record", "PermittedSubclasses",
];

fn annotation(t: u16) -> Annotation {
	Annotation {
		type_index: t,
		element_value_pairs: vec![
			ElementValuePairsEntry { element_name_index: t + 1, value: ElementValue::Byte { const_value_index: t + 2 } },
			ElementValuePairsEntry { element_name_index: t + 3, value: ElementValue::Enum { type_name_index: t + 4, const_name_index: t + 5 } },
		],
	}
}

pub fn golden() -> ClassFile {
	let mut constant_pool: Vec<CpInfo> = ATTR_NAMES.iter().map(|n| u(n)).collect();
	constant_pool.push(u("Custom")); // 29
	constant_pool.extend([
		CpInfo::Class { name_index: 0x0101 },
		CpInfo::Fieldref { class_index: 0x0201, name_and_type_index: 0x0202 },
		CpInfo::Methodref { class_index: 0x0301, name_and_type_index: 0x0302 },
		CpInfo::InterfaceMethodref { class_index: 0x0401, name_and_type_index: 0x0402 },
		CpInfo::String { string_index: 0x0501 },
		CpInfo::Integer { bytes: 0x06010203 },
		CpInfo::Float { bytes: 0x07010203 },
		CpInfo::NameAndType { name_index: 0x0801, descriptor_index: 0x0802 },
		CpInfo::MethodHandle { reference_kind: 9, reference_index: 0x0902 },
		CpInfo::MethodType { descriptor_index: 0x0a01 },
		CpInfo::Dynamic { bootstrap_method_attr_index: 0x0b01, name_and_type_index: 0x0b02 },
		CpInfo::InvokeDynamic { bootstrap_method_attr_index: 0x0c01, name_and_type_index: 0x0c02 },
		CpInfo::Module { name_index: 0x0d01 },
		CpInfo::Package { name_index: 0x0e01 },
		// two-slot entries (JVMS indices 44-45 and 46-47), last so that no index used below moves
		CpInfo::Long { high_bytes: 0x0f010203, low_bytes: 0x0f040506 },
		CpInfo::Double { high_bytes: 0x10010203, low_bytes: 0x10040506 },
	]);
	let vtis = vec![
		VerificationTypeInfo::Top {}, VerificationTypeInfo::Integer {}, VerificationTypeInfo::Float {},
		VerificationTypeInfo::Double {}, VerificationTypeInfo::Long {}, VerificationTypeInfo::Null {},
		VerificationTypeInfo::UnintializedThis {}, VerificationTypeInfo::Object { cpool_index: 0x1101 },
		VerificationTypeInfo::Unintialized { offset: 0x1102 },
	];
	let code_attributes = vec![
		AttributeInfo::StackMapTable { attribute_name_index: 3, entries: vec![
			StackMapFrame::SameFrame { offset_delta: 0x21 },
			StackMapFrame::SameLocals1StackItemFrame { offset_delta: 0x22, stack: VerificationTypeInfo::Integer {} },
			StackMapFrame::SameLocals1StackItemFrameExtended { offset_delta: 0x2301, stack: VerificationTypeInfo::Object { cpool_index: 0x2302 } },
			StackMapFrame::ChopFrame { k: 2, offset_delta: 0x2401 },
			StackMapFrame::SameFrameExtended { offset_delta: 0x2501 },
			StackMapFrame::AppendFrame { offset_delta: 0x2601, locals: vec![VerificationTypeInfo::Float {}, VerificationTypeInfo::Null {}] },
			StackMapFrame::FullFrame { offset_delta: 0x2701, locals: vtis.clone(), stack: vec![VerificationTypeInfo::Top {}] },
		] },
		AttributeInfo::LineNumberTable { attribute_name_index: 11, line_number_table: vec![LineNumberTableEntry { start_pc: 0x3101, line_number: 0x3102 }] },
		AttributeInfo::LocalVariableTable { attribute_name_index: 12, local_variable_table: vec![
			LocalVariableTableEntry { start_pc: 0x3201, length: 0x3202, name_index: 0x3203, descriptor_index: 0x3204, index: 0x3205 }] },
		AttributeInfo::LocalVariableTypeTable { attribute_name_index: 13, local_variable_type_table: vec![
			LocalVariableTypeTableEntry { start_pc: 0x3301, length: 0x3302, name_index: 0x3303, signature_index: 0x3304, index: 0x3305 }] },
	];
	let method_attributes = vec![
		AttributeInfo::Code {
			attribute_name_index: 2, max_stack: 0x4101, max_locals: 0x4102, code: vec![0x2a, 0xb1],
			exception_table: vec![ExceptionTableEntry { start_pc: 0x4201, end_pc: 0x4202, handler_pc: 0x4203, catch_type: 0x4204 }],
			attributes: code_attributes,
		},
		AttributeInfo::Exceptions { attribute_name_index: 4, exception_index_table: vec![0x4301, 0x4302] },
		AttributeInfo::RuntimeVisibleParameterAnnotations { attribute_name_index: 17, parameter_annotations: vec![
			ParameterAnnotationEntry { annotations: vec![annotation(0x4400)] }, ParameterAnnotationEntry { annotations: vec![] }] },
		AttributeInfo::RuntimeInvisibleParameterAnnotations { attribute_name_index: 18, parameter_annotations: vec![
			ParameterAnnotationEntry { annotations: vec![annotation(0x4500)] }] },
		AttributeInfo::AnnotationDefault { attribute_name_index: 19, default_value: ElementValue::Array { values: vec![
			ElementValue::Char { const_value_index: 0x4601 }, ElementValue::Double { const_value_index: 0x4602 },
			ElementValue::Float { const_value_index: 0x4603 }, ElementValue::Integer { const_value_index: 0x4604 },
			ElementValue::Long { const_value_index: 0x4605 }, ElementValue::Short { const_value_index: 0x4606 },
			ElementValue::Boolean { const_value_index: 0x4607 }, ElementValue::String { const_value_index: 0x4608 },
			ElementValue::Class { class_info_index: 0x4609 }, ElementValue::Annotation { annotation_value: annotation(0x4700) },
		] } },
		AttributeInfo::MethodParameters { attribute_name_index: 21, parameters: vec![MethodParametersEntry { name_index: 0x4801, access_flags: 0x4802 }] },
	];
	let field_attributes = vec![
		AttributeInfo::ConstantValue { attribute_name_index: 1, constantvalue_index: 0x5101 },
		AttributeInfo::Synthetic { attribute_name_index: 7 },
		AttributeInfo::Signature { attribute_name_index: 8, signature_index: 0x5201 },
		AttributeInfo::Deprecated { attribute_name_index: 14 },
		AttributeInfo::RuntimeVisibleAnnotations { attribute_name_index: 15, annotations: vec![annotation(0x5300)] },
		AttributeInfo::RuntimeInvisibleAnnotations { attribute_name_index: 16, annotations: vec![annotation(0x5400)] },
	];
	let attributes = vec![
		AttributeInfo::InnerClasses { attribute_name_index: 5, classes: vec![InnerClassesEntry {
			inner_class_info_index: 0x6101, outer_class_info_index: 0x6102, inner_name_index: 0x6103, inner_class_access_flags: 0x6104 }] },
		AttributeInfo::EnclosingMethod { attribute_name_index: 6, class_index: 0x6201, method_index: 0x6202 },
		AttributeInfo::SourceFile { attribute_name_index: 9, sourcefile_index: 0x6301 },
		AttributeInfo::SourceDebugExtension { attribute_name_index: 10, debug_extension: vec![0x64, 0x65, 0x66] },
		AttributeInfo::BootstrapMethods { attribute_name_index: 20, bootstrap_methods: vec![
			BootstrapMethodsEntry { bootstrap_method_ref: 0x6701, boostrap_arguments: vec![0x6702, 0x6703] }] },
		AttributeInfo::Module {
			attribute_name_index: 22, module_name_index: 0x6801, module_flags: 0x6802, module_version_index: 0x6803,
			requires: vec![ModuleRequiresEntry { requires_index: 0x6901, requires_flags: 0x6902, requires_version_index: 0x6903 }],
			exports: vec![ModuleExportsEntry { exports_index: 0x6a01, exports_flags: 0x6a02, exports_to_index: vec![0x6a03] }],
			opens: vec![ModuleOpensEntry { opens_index: 0x6b01, opens_flags: 0x6b02, opens_to_index: vec![0x6b03, 0x6b04] }],
			uses_index: vec![0x6c01],
			provides: vec![ModuleProvidesEntry { provides_index: 0x6d01, provides_with_index: vec![0x6d02] }],
		},
		AttributeInfo::ModulePackages { attribute_name_index: 23, package_index: vec![0x6e01] },
		AttributeInfo::ModuleMainClass { attribute_name_index: 24, main_class_index: 0x6f01 },
		AttributeInfo::NestHost { attribute_name_index: 25, host_class_index: 0x7001 },
		AttributeInfo::NestMembers { attribute_name_index: 26, classes: vec![0x7101, 0x7102] },
		AttributeInfo::Record { attribute_name_index: 27, components: vec![RecordComponentInfo {
			name_index: 0x7201, descriptor_index: 0x7202, attributes: vec![AttributeInfo::Signature { attribute_name_index: 8, signature_index: 0x7203 }] }] },
		AttributeInfo::PermittedSubclasses { attribute_name_index: 28, classes: vec![0x7301] },
		AttributeInfo::Other { attribute_name_index: 29, info: vec![0x74, 0x75] },
	];
	ClassFile {
		minor_version: 0x0003,
		major_version: 0x0041,
		constant_pool,
		access_flags: 0x8101,
		this_class: 0x8102,
		super_class: 0x8103,
		interfaces: vec![0x8201, 0x8202],
		fields: vec![FieldInfo { access_flags: 0x8301, name_index: 0x8302, descriptor_index: 0x8303, attributes: field_attributes }],
		methods: vec![MethodInfo { access_flags: 0x8401, name_index: 0x8402, descriptor_index: 0x8403, attributes: method_attributes }],
		attributes,
	}
}
