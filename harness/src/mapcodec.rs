//! quill `Mappings<N>` <-> S-expression. Entry shapes (keys are printed: they are part of the IndexMap state):
//!   mappings := ((ns…) doc (class…))
//!   class    := (key names doc (field…) (method…))
//!   field    := (kname kdesc desc names doc)
//!   method   := (kname kdesc desc names doc (param…))
//!   param    := (kindex index names doc)
//!   names    := (opt…)      doc := opt      opt := () | (x)
//! Maps are printed in IndexMap order.
use indexmap::IndexMap;
use java_string::JavaString;
use duke::tree::class::ObjClassName;
use duke::tree::field::{FieldDescriptor, FieldName, FieldNameAndDesc};
use duke::tree::method::{MethodDescriptor, MethodName, MethodNameAndDesc, ParameterName};
use quill::tree::mappings::*;
use quill::tree::names::{Names, Namespaces};
use crate::sexp::{R, Sexp};

pub struct NsMarker;
pub type M<const N: usize> = Mappings<N, NsMarker>;

pub fn cn(s: JavaString) -> ObjClassName { unsafe { ObjClassName::from_inner_unchecked(s) } }
pub fn fname(s: JavaString) -> FieldName { unsafe { FieldName::from_inner_unchecked(s) } }
pub fn fdesc(s: JavaString) -> FieldDescriptor { unsafe { FieldDescriptor::from_inner_unchecked(s) } }
pub fn mname(s: JavaString) -> MethodName { unsafe { MethodName::from_inner_unchecked(s) } }
pub fn mdesc(s: JavaString) -> MethodDescriptor { unsafe { MethodDescriptor::from_inner_unchecked(s) } }
pub fn pname(s: JavaString) -> ParameterName { unsafe { ParameterName::from_inner_unchecked(s) } }

fn doc_to(d: &Option<JavadocMapping>) -> Sexp { Sexp::opt(d.as_ref(), |d| Sexp::str(&d.0)) }
fn doc_from(s: &Sexp) -> R<Option<JavadocMapping>> {
	Ok(match s.as_opt()? { None => None, Some(x) => Some(JavadocMapping(x.as_string()?)) })
}

pub fn names_to<const N: usize, T: AsRef<java_string::JavaStr>>(n: &Names<N, T>) -> Sexp {
	let arr: &[Option<T>; N] = n.into();
	Sexp::list(arr.iter().map(|o| Sexp::opt(o.as_ref(), |t| Sexp::jstr(t.as_ref()))).collect())
}
pub fn names_from<const N: usize, T: AsRef<java_string::JavaStr> + std::fmt::Debug>(s: &Sexp, mk: fn(JavaString) -> T) -> R<Names<N, T>> {
	let v: Vec<Option<T>> = s.as_list()?.iter()
		.map(|o| Ok(match o.as_opt()? { None => None, Some(x) => Some(mk(x.as_jstring()?)) }))
		.collect::<R<_>>()?;
	let arr: [Option<T>; N] = v.try_into().map_err(|_| format!("names row is not of length {N}"))?;
	Names::try_from(arr).map_err(|e| format!("{e}"))
}

pub fn to_sexp<const N: usize, Ns>(m: &Mappings<N, Ns>) -> Sexp {
	let ns: &[String; N] = (&m.info.namespaces).into();
	Sexp::list(vec![
		Sexp::list(ns.iter().map(|s| Sexp::str(s)).collect()),
		doc_to(&m.javadoc),
		Sexp::list(m.classes.iter().map(|(k, c)| class_to(k, c)).collect()),
	])
}

pub fn class_to<const N: usize>(k: &ObjClassName, c: &ClassNowodeMapping<N>) -> Sexp {
	Sexp::list(vec![
		Sexp::jstr(k.as_inner()),
		names_to(&c.info.names),
		doc_to(&c.javadoc),
		Sexp::list(c.fields.iter().map(|(k, f)| Sexp::list(vec![
			Sexp::jstr(k.name.as_inner()), Sexp::jstr(k.desc.as_inner()),
			Sexp::jstr(f.info.desc.as_inner()), names_to(&f.info.names), doc_to(&f.javadoc),
		])).collect()),
		Sexp::list(c.methods.iter().map(|(k, m)| Sexp::list(vec![
			Sexp::jstr(k.name.as_inner()), Sexp::jstr(k.desc.as_inner()),
			Sexp::jstr(m.info.desc.as_inner()), names_to(&m.info.names), doc_to(&m.javadoc),
			Sexp::list(m.parameters.iter().map(|(k, p)| Sexp::list(vec![
				Sexp::nat(k.index), Sexp::nat(p.info.index), names_to(&p.info.names), doc_to(&p.javadoc),
			])).collect()),
		])).collect()),
	])
}

pub fn from_sexp<const N: usize, Ns>(s: &Sexp) -> R<Mappings<N, Ns>> {
	let [ns, doc, classes] = s.as_list()? else { return Err("mappings: expected 3 items".into()) };
	let ns: Vec<String> = ns.as_list()?.iter().map(|x| x.as_string()).collect::<R<_>>()?;
	let ns: [String; N] = ns.try_into().map_err(|_| format!("namespaces not of length {N}"))?;
	let namespaces: Namespaces<N, Ns> = Namespaces::try_from(ns).map_err(|e| format!("{e}"))?;
	let mut cmap = IndexMap::new();
	for c in classes.as_list()? {
		let (k, c) = class_from::<N>(c)?;
		if cmap.insert(k, c).is_some() { return Err("duplicate class key in input".into()); }
	}
	Ok(Mappings { info: MappingInfo { namespaces }, classes: cmap, javadoc: doc_from(doc)? })
}

pub fn class_from<const N: usize>(c: &Sexp) -> R<(ObjClassName, ClassNowodeMapping<N>)> {
	let [k, names, doc, fields, methods] = c.as_list()? else { return Err("class: expected 5 items".into()) };
	let mut fmap = IndexMap::new();
	for f in fields.as_list()? {
		let [kn, kd, desc, names, doc] = f.as_list()? else { return Err("field: expected 5 items".into()) };
		let key = FieldNameAndDesc { name: fname(kn.as_jstring()?), desc: fdesc(kd.as_jstring()?) };
		let node = FieldNowodeMapping {
			info: FieldMapping { desc: fdesc(desc.as_jstring()?), names: names_from(names, fname)? },
			javadoc: doc_from(doc)?,
		};
		if fmap.insert(key, node).is_some() { return Err("duplicate field key in input".into()); }
	}
	let mut mmap = IndexMap::new();
	for m in methods.as_list()? {
		let [kn, kd, desc, names, doc, params] = m.as_list()? else { return Err("method: expected 6 items".into()) };
		let key = MethodNameAndDesc { name: mname(kn.as_jstring()?), desc: mdesc(kd.as_jstring()?) };
		let mut pmap = IndexMap::new();
		for p in params.as_list()? {
			let [ki, index, names, doc] = p.as_list()? else { return Err("param: expected 4 items".into()) };
			let node = ParameterNowodeMapping {
				info: ParameterMapping { index: index.as_nat()?, names: names_from(names, pname)? },
				javadoc: doc_from(doc)?,
			};
			if pmap.insert(ParameterKey { index: ki.as_nat()? }, node).is_some() { return Err("duplicate param key in input".into()); }
		}
		let node = MethodNowodeMapping {
			info: MethodMapping { desc: mdesc(desc.as_jstring()?), names: names_from(names, mname)? },
			parameters: pmap,
			javadoc: doc_from(doc)?,
		};
		if mmap.insert(key, node).is_some() { return Err("duplicate method key in input".into()); }
	}
	let node = ClassNowodeMapping {
		info: ClassMapping { names: names_from(names, cn)? },
		fields: fmap, methods: mmap, javadoc: doc_from(doc)?,
	};
	Ok((cn(k.as_jstring()?), node))
}

/// number of namespaces of an encoded mapping set
pub fn ns_count(s: &Sexp) -> R<usize> {
	Ok(s.as_list()?.first().ok_or("empty mappings")?.as_list()?.len())
}

/// Runs `$body` with the const generic `$N` bound to the run-time namespace count (2..=4).
#[macro_export]
macro_rules! with_n {
	($n:expr, $N:ident, $body:expr, $else:expr) => {
		match $n {
			2 => { const $N: usize = 2; $body }
			3 => { const $N: usize = 3; $body }
			4 => { const $N: usize = 4; $body }
			_ => $else,
		}
	};
}
